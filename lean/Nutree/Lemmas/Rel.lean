/-
  Helper lemmas for C10 (relationships), part 1: structure of `flat`, `sub`, `pathNodes`;
  distinct node identities make paths unique.
-/
import Nutree.Model.Rel
import Nutree.Spec.Rel
namespace Nutree
open T

namespace C10
/-- node identities are pairwise distinct in the whole tree (system root included) -/
def IdsNodup (root : T) : Prop := ((T.flat root).map T.id).Nodup
/-- node identities are pairwise distinct in a forest -/
def IdsNodupL (ks : List T) : Prop := ((T.flatL ks).map T.id).Nodup
end C10
open C10

/-! ### flat / flatL membership -/

theorem self_mem_flat (t : T) : t ∈ flat t := by
  cases t; simp [flat]

theorem flat_eq (t : T) : flat t = t :: flatL t.kids := by
  cases t; simp [flat]

theorem mem_flatL {x : T} : ∀ {ks : List T}, x ∈ flatL ks ↔ ∃ c ∈ ks, x ∈ flat c
  | [] => by simp [flatL]
  | t :: ts => by
    have ih := @mem_flatL x ts
    simp [flatL, ih]

theorem mem_flatL_of_getElem? {ks : List T} {i : Nat} {c x : T}
    (hc : ks[i]? = some c) (hx : x ∈ flat c) : x ∈ flatL ks :=
  mem_flatL.2 ⟨c, List.mem_of_getElem? hc, hx⟩

theorem mem_flat_of_mem_flatL_kids {t x : T} (h : x ∈ flatL t.kids) : x ∈ flat t := by
  rw [flat_eq]; exact List.mem_cons_of_mem _ h

/-! ### sub -/

@[simp] theorem sub_nil (t : T) : t.sub [] = some t := by simp [T.sub]

theorem sub_cons (t : T) (i : Nat) (r : List Nat) :
    t.sub (i :: r) = (t.kids[i]?).bind (fun c => c.sub r) := by
  rw [T.sub]; cases t.kids[i]? <;> rfl

theorem sub_cons_some {t a : T} {i : Nat} {r : List Nat} (h : t.sub (i :: r) = some a) :
    ∃ c, t.kids[i]? = some c ∧ c.sub r = some a := by
  rw [sub_cons] at h
  cases hc : t.kids[i]? with
  | none => simp [hc] at h
  | some c => exact ⟨c, rfl, by simpa [hc] using h⟩

theorem sub_append (t : T) (p q : List Nat) :
    t.sub (p ++ q) = (t.sub p).bind (fun x => x.sub q) := by
  induction p generalizing t with
  | nil => simp
  | cons i r ih =>
    rw [List.cons_append, sub_cons, sub_cons]
    cases t.kids[i]? with
    | none => rfl
    | some c => simp [ih]

theorem sub_concat {t par : T} {p : List Nat} (i : Nat) (h : t.sub p = some par) :
    t.sub (p ++ [i]) = par.kids[i]? := by
  rw [sub_append, h]
  simp only [Option.bind_some, sub_cons]
  cases par.kids[i]? <;> simp

/-- decomposition of a non-empty path into parent path and last index -/
theorem snoc_cases {root self : T} {p : List Nat} (hp : p ≠ []) (hs : root.sub p = some self) :
    ∃ p' i par, p = p' ++ [i] ∧ root.sub p' = some par ∧ par.kids[i]? = some self := by
  rcases List.eq_nil_or_concat p with h | ⟨p', i, h⟩
  · exact absurd h hp
  · rw [List.concat_eq_append] at h
    subst h
    rw [sub_append] at hs
    cases hpar : root.sub p' with
    | none => simp [hpar] at hs
    | some par =>
      refine ⟨p', i, par, rfl, hpar, ?_⟩
      rw [← sub_concat i hpar, sub_append, hpar]
      simpa [hpar] using hs

theorem mem_flat_of_sub {t a : T} {p : List Nat} (h : t.sub p = some a) : a ∈ flat t := by
  induction p generalizing t with
  | nil => simp at h; subst h; exact self_mem_flat _
  | cons i r ih =>
    obtain ⟨c, hc, hr⟩ := sub_cons_some h
    exact mem_flat_of_mem_flatL_kids (mem_flatL_of_getElem? hc (ih hr))

/-! ### size bounds the path length -/

theorem size_le_sizeL {ks : List T} {i : Nat} {c : T} (hc : ks[i]? = some c) :
    c.size ≤ sizeL ks := by
  induction ks generalizing i with
  | nil => simp at hc
  | cons t ts ih =>
    cases i with
    | zero => simp at hc; subst hc; simp [sizeL]
    | succ j =>
      simp at hc
      have := ih hc
      simp [sizeL]; omega

theorem size_eq (t : T) : t.size = 1 + sizeL t.kids := by
  cases t; simp [size]

theorem length_add_size_le {t a : T} {p : List Nat} (h : t.sub p = some a) :
    p.length + a.size ≤ t.size := by
  induction p generalizing t with
  | nil => simp at h; subst h; simp
  | cons i r ih =>
    obtain ⟨c, hc, hr⟩ := sub_cons_some h
    have h1 := ih hr
    have h2 := size_le_sizeL hc
    rw [size_eq t]
    simp; omega

theorem size_pos (t : T) : 0 < t.size := by rw [size_eq]; omega

/-! ### distinct identities -/

theorem idsNodup_iff (t : T) :
    IdsNodup t ↔ (∀ x ∈ flatL t.kids, x.id ≠ t.id) ∧ IdsNodupL t.kids := by
  unfold IdsNodup IdsNodupL
  rw [flat_eq, List.map_cons, List.nodup_cons]
  simp only [List.mem_map, not_exists, not_and]

theorem idsNodupL_cons (t : T) (ts : List T) :
    IdsNodupL (t :: ts) ↔
      IdsNodup t ∧ IdsNodupL ts ∧ ∀ x ∈ flat t, ∀ y ∈ flatL ts, x.id ≠ y.id := by
  unfold IdsNodup IdsNodupL
  rw [flatL, List.map_append, List.nodup_append]
  simp only [List.mem_map, forall_exists_index, and_imp]
  constructor
  · rintro ⟨h1, h2, h3⟩
    exact ⟨h1, h2, fun x hx y hy => h3 _ x hx rfl _ y hy rfl⟩
  · rintro ⟨h1, h2, h3⟩
    refine ⟨h1, h2, ?_⟩
    intro a x hx hxa b y hy hyb
    subst hxa; subst hyb
    exact h3 x hx y hy

theorem idsNodup_of_getElem? {ks : List T} {i : Nat} {c : T} (hN : IdsNodupL ks)
    (hc : ks[i]? = some c) : IdsNodup c := by
  induction ks generalizing i with
  | nil => simp at hc
  | cons t ts ih =>
    obtain ⟨h1, h2, _⟩ := (idsNodupL_cons t ts).1 hN
    cases i with
    | zero => simp at hc; subst hc; exact h1
    | succ j => simp at hc; exact ih h2 hc

theorem idsNodup_kid {t c : T} {i : Nat} (hN : IdsNodup t) (hc : t.kids[i]? = some c) :
    IdsNodup c :=
  idsNodup_of_getElem? ((idsNodup_iff t).1 hN).2 hc

/-- members of different children's branches have different identities -/
theorem id_ne_of_ne_idx {ks : List T} {i j : Nat} {c d x y : T} (hN : IdsNodupL ks)
    (hc : ks[i]? = some c) (hd : ks[j]? = some d) (hij : i ≠ j)
    (hx : x ∈ flat c) (hy : y ∈ flat d) : x.id ≠ y.id := by
  induction ks generalizing i j with
  | nil => simp at hc
  | cons t ts ih =>
    obtain ⟨_, h2, h3⟩ := (idsNodupL_cons t ts).1 hN
    cases i with
    | zero =>
      cases j with
      | zero => exact absurd rfl hij
      | succ j' =>
        simp at hc hd; subst hc
        exact h3 x hx y (mem_flatL_of_getElem? hd hy)
    | succ i' =>
      cases j with
      | zero =>
        simp at hc hd; subst hd
        exact fun e => h3 y hy x (mem_flatL_of_getElem? hc hx) e.symm
      | succ j' =>
        simp at hc hd
        exact ih h2 hc hd (fun e => hij (by rw [e]))

/-- a strict descendant's identity differs from the node's own -/
theorem sub_cons_id_ne {t b : T} {j : Nat} {q : List Nat} (hN : IdsNodup t)
    (hb : t.sub (j :: q) = some b) : b.id ≠ t.id := by
  obtain ⟨d, hd, hq⟩ := sub_cons_some hb
  exact ((idsNodup_iff t).1 hN).1 b (mem_flatL_of_getElem? hd (mem_flat_of_sub hq))

/-- **Uniqueness of paths**: with pairwise distinct identities, the identity determines the path. -/
theorem path_unique {root a b : T} {p q : List Nat} (hN : IdsNodup root)
    (ha : root.sub p = some a) (hb : root.sub q = some b) (hid : a.id = b.id) : p = q := by
  induction p generalizing root q with
  | nil =>
    cases q with
    | nil => rfl
    | cons j q' =>
      simp at ha; subst ha
      exact absurd hid.symm (sub_cons_id_ne hN hb)
  | cons i p' ih =>
    cases q with
    | nil =>
      simp at hb; subst hb
      exact absurd hid (sub_cons_id_ne hN ha)
    | cons j q' =>
      obtain ⟨c, hc, hp'⟩ := sub_cons_some ha
      obtain ⟨d, hd, hq'⟩ := sub_cons_some hb
      by_cases hij : i = j
      · subst hij
        rw [hc] at hd; cases hd
        rw [ih (idsNodup_kid hN hc) hp' hq']
      · exact absurd hid (id_ne_of_ne_idx ((idsNodup_iff root).1 hN).2 hc hd hij
          (mem_flat_of_sub hp') (mem_flat_of_sub hq'))

/-- with distinct identities, the identity determines the node -/
theorem node_unique {root a b : T} {p q : List Nat} (hN : IdsNodup root)
    (ha : root.sub p = some a) (hb : root.sub q = some b) (hid : a.id = b.id) : a = b := by
  have := path_unique hN ha hb hid
  subst this
  rw [ha] at hb; exact Option.some.inj hb

/-! ### pathNodes -/

theorem pathNodes_cons_some {root c : T} {i : Nat} (r : List Nat) (h : root.kids[i]? = some c) :
    pathNodes root (i :: r) = c :: pathNodes c r := by
  rw [pathNodes, h]

theorem pathNodes_cons_none {root : T} {i : Nat} (r : List Nat) (h : root.kids[i]? = none) :
    pathNodes root (i :: r) = [] := by
  rw [pathNodes, h]

theorem pathNodes_append {root x : T} {p : List Nat} (q : List Nat) (h : root.sub p = some x) :
    pathNodes root (p ++ q) = pathNodes root p ++ pathNodes x q := by
  induction p generalizing root with
  | nil => simp at h; subst h; simp [pathNodes]
  | cons i r ih =>
    obtain ⟨c, hc, hr⟩ := sub_cons_some h
    rw [List.cons_append, pathNodes_cons_some _ hc, pathNodes_cons_some _ hc]
    simp [ih hr]

theorem pathNodes_concat {root par self : T} {p : List Nat} {i : Nat}
    (h : root.sub p = some par) (hi : par.kids[i]? = some self) :
    pathNodes root (p ++ [i]) = pathNodes root p ++ [self] := by
  rw [pathNodes_append _ h, pathNodes_cons_some _ hi]; simp [pathNodes]

theorem pathNodes_length {root x : T} {p : List Nat} (h : root.sub p = some x) :
    (pathNodes root p).length = p.length := by
  induction p generalizing root with
  | nil => simp [pathNodes]
  | cons i r ih =>
    obtain ⟨c, hc, hr⟩ := sub_cons_some h
    rw [pathNodes_cons_some _ hc]; simp [ih hr]

/-- the members of `pathNodes root q` are the nodes at the non-empty prefixes of `q` -/
theorem mem_pathNodes {root y : T} {q : List Nat} :
    y ∈ pathNodes root q ↔ ∃ r, r ≠ [] ∧ r <+: q ∧ root.sub r = some y := by
  induction q generalizing root with
  | nil =>
    simp only [pathNodes, List.not_mem_nil, List.prefix_nil, false_iff]
    rintro ⟨r, h1, h2, _⟩; exact h1 h2
  | cons i q' ih =>
    cases hc : root.kids[i]? with
    | none =>
      rw [pathNodes_cons_none _ hc]
      simp only [List.not_mem_nil, false_iff]
      rintro ⟨r, h1, h2, h3⟩
      cases r with
      | nil => exact h1 rfl
      | cons j r' =>
        have hj : j = i := (List.cons_prefix_cons.1 h2).1
        subst hj
        obtain ⟨c, hc', _⟩ := sub_cons_some h3
        rw [hc] at hc'; cases hc'
    | some c =>
      rw [pathNodes_cons_some _ hc]
      simp only [List.mem_cons]
      constructor
      · rintro (h | h)
        · subst h
          refine ⟨[i], by simp, ?_, ?_⟩
          · exact List.cons_prefix_cons.2 ⟨rfl, List.nil_prefix⟩
          · rw [sub_cons, hc]; simp
        · obtain ⟨r, h1, h2, h3⟩ := ih.1 h
          refine ⟨i :: r, by simp, List.cons_prefix_cons.2 ⟨rfl, h2⟩, ?_⟩
          rw [sub_cons, hc]; simpa using h3
      · rintro ⟨r, h1, h2, h3⟩
        cases r with
        | nil => exact absurd rfl h1
        | cons j r' =>
          obtain ⟨hj, h2'⟩ := List.cons_prefix_cons.1 h2
          subst hj
          rw [sub_cons, hc] at h3
          simp only [Option.bind_some] at h3
          cases r' with
          | nil => simp at h3; exact Or.inl h3.symm
          | cons k r'' => exact Or.inr (ih.2 ⟨_, by simp, h2', h3⟩)

end Nutree
