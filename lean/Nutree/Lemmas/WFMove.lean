/-
  Nutree.Lemmas.WFMove — `Tree.moveTo` (detach the branch of `n` from its parent, attach it to the
  new parent) keeps the state well-formed.

  * `modT_mem_flat_of`, `findT_modT_survive` — a node of the old tree survives a `modT` edit of the
    child list of `p` unless it sat in a child branch of `p` that the edit dropped.
  * `modT_eq_self` — an edit that does not change the child list of `p` does not change the tree.
  * `Detach` — the facts about `r1 = modT par.id (eraseId n) root` (distinct identities, the
    surviving nodes, sibling uniqueness).
  * `moveIns`, `moveTo_eq`, `moveTo_ok` — the `before` validation of `moveTo` as a function, the
    unfolding, and the decomposition of a successful `moveTo`.
  * `move_*` — the root-level facts about the moved tree; `WF_move` puts them together.
-/
import Nutree.Lemmas.WFRemove
namespace Nutree
open T C10

/-! ### surviving a `modT` edit -/

/-- a strict descendant of the node `q` with identity `p` does not contain `p`. -/
theorem not_mem_ids_of_mem_flatL_kids {root q y : T} {p : NodeId} (hN : C10.IdsNodup root)
    (hp : findT p root = some q) (hy : y ∈ flatL q.kids) : p ∉ (flat y).map T.id := by
  have hqN := idsNodup_of_mem_flat hN (findT_some_mem hp)
  intro hm
  obtain ⟨z, hz, hzp⟩ := mem_ids.1 hm
  obtain ⟨c, hc, hyc⟩ := mem_flatL.1 hy
  have hzq : z ∈ flatL q.kids := mem_flatL.2 ⟨c, hc, mem_flat_trans hz hyc⟩
  exact id_ne_of_mem_flatL_kids hqN hzq (hzp.trans (findT_some_id hp).symm)

/-- **Survival.**  With distinct identities and `q` the node `p`: an old node `y` survives the edit
as `modT p g y` provided that, if it lies in a child branch of `q`, it also lies in a new child branch. -/
theorem modT_mem_flat_of {p : NodeId} {g : List T → List T} {root q y : T} (hN : C10.IdsNodup root)
    (hp : findT p root = some q) (hy : y ∈ flat root)
    (hg : y ∈ flatL q.kids → y ∈ flatL (g q.kids)) : modT p g y ∈ flat (modT p g root) := by
  by_cases hyq : y ∈ flatL q.kids
  · rw [modT_of_not_mem (not_mem_ids_of_mem_flatL_kids hN hp hyq)]
    exact mem_flat_modT_new hp (hg hyq)
  · exact (modT_frame hN hp hy hyq).1

/-- searching a surviving node in the edited tree. -/
theorem findT_modT_survive {c p : NodeId} {g : List T → List T} {root q y : T} (hN : C10.IdsNodup root)
    (hN' : C10.IdsNodup (modT p g root)) (hp : findT p root = some q) (hy : findT c root = some y)
    (hg : y ∈ flatL q.kids → y ∈ flatL (g q.kids)) :
    findT c (modT p g root) = some (modT p g y) :=
  (findT_eq_some_iff hN').2
    ⟨modT_mem_flat_of hN hp (findT_some_mem hy) hg, by rw [modT_id]; exact findT_some_id hy⟩

/-- an edit that leaves the child list of every node `p` as it is leaves the tree as it is. -/
theorem modT_eq_self {p : NodeId} {g : List T → List T} :
    ∀ {root : T}, (∀ q ∈ flat root, q.id = p → g q.kids = q.kids) → modT p g root = root := by
  intro root
  induction root using T.ind with
  | node i ks ih =>
    intro h
    rw [modT_node]
    by_cases hid : i.id = p
    · rw [if_pos hid]
      have := h _ (self_mem_flat _) hid
      rw [T.kids_node] at this
      rw [this]
    · rw [if_neg hid]
      congr 1
      refine (List.map_congr_left (fun c hc => ih c hc ?_)).trans (List.map_id' ks)
      exact fun q hq => h q (mem_flat_trans hq (mem_flat_of_mem_kids hc))

theorem modT_eq_self_of {p : NodeId} {g : List T → List T} {root q : T} (hN : C10.IdsNodup root)
    (hp : findT p root = some q) (hg : g q.kids = q.kids) : modT p g root = root := by
  refine modT_eq_self (fun q' hq' hq'p => ?_)
  have : q' = q := eq_of_id_eq hN hq' (findT_some_mem hp) (hq'p.trans (findT_some_id hp).symm)
  subst this; exact hg

/-- the members of a subtree are members of the tree (identity version). -/
theorem ids_subset_of_mem_flat {root x : T} (hx : x ∈ flat root) {a : NodeId}
    (ha : a ∈ (flat x).map T.id) : a ∈ (flat root).map T.id := by
  obtain ⟨y, hy, hya⟩ := mem_ids.1 ha
  exact mem_ids.2 ⟨y, mem_flat_trans hy hx, hya⟩

/-! ### detaching the branch of `n` -/

/-- the situation of a detach: distinct identities, `x` the node `n`, `par` its parent. -/
structure Detach (root x par : T) (n : NodeId) : Prop where
  hN : C10.IdsNodup root
  hx : findT n root = some x
  hpar : findParent n root = some par

namespace Detach
variable {root x par : T} {n : NodeId}

theorem par_mem (d : Detach root x par n) : par ∈ flat root := (findParent_some_mem d.hpar).1
theorem x_mem (d : Detach root x par n) : x ∈ flat root := findT_some_mem d.hx
theorem x_id (d : Detach root x par n) : x.id = n := findT_some_id d.hx

theorem x_kid (d : Detach root x par n) : x ∈ par.kids := by
  obtain ⟨hpm, c, hc, hcn⟩ := findParent_some_mem d.hpar
  have : c = x := eq_of_id_eq d.hN (mem_flat_trans (mem_flat_of_mem_kids hc) hpm) d.x_mem (hcn.trans d.x_id.symm)
  exact this ▸ hc

theorem findT_par (d : Detach root x par n) : findT par.id root = some par := findT_of_mem d.hN d.par_mem

theorem parN (d : Detach root x par n) : C10.IdsNodup par := idsNodup_of_mem_flat d.hN d.par_mem

/-- the parent's child list is the detached child plus the rest. -/
theorem kids_perm (d : Detach root x par n) : par.kids.Perm (x :: eraseId n par.kids) :=
  eraseId_perm (kids_ids_nodup d.parN) d.x_kid d.x_id

theorem flatL_kids_perm (d : Detach root x par n) :
    (flatL par.kids).Perm (flat x ++ flatL (eraseId n par.kids)) := by
  have := flatL_perm d.kids_perm
  rwa [flatL_cons] at this

/-- the tree after the detach. -/
abbrev r1 (_ : Detach root x par n) : T := modT par.id (eraseId n) root

theorem ids_perm (d : Detach root x par n) :
    ((flat d.r1).map T.id ++ (flat x).map T.id).Perm ((flat root).map T.id) :=
  detach_ids_perm d.hN d.hx d.hpar

theorem r1N (d : Detach root x par n) : C10.IdsNodup d.r1 := by
  have := d.ids_perm.nodup_iff.2 d.hN
  exact (List.nodup_append.1 this).1

/-- the identities of the detached branch are gone. -/
theorem not_mem_r1 (d : Detach root x par n) {a : NodeId} (ha : a ∈ (flat x).map T.id) :
    a ∉ (flat d.r1).map T.id := by
  have := d.ids_perm.nodup_iff.2 d.hN
  intro hm
  exact (List.nodup_append.1 this).2.2 a hm a ha rfl

/-- every node outside the detached branch survives. -/
theorem survive (d : Detach root x par n) {y : T} (hy : y ∈ flat root) (hyx : y ∉ flat x) :
    modT par.id (eraseId n) y ∈ flat d.r1 := by
  refine modT_mem_flat_of d.hN d.findT_par hy (fun hyk => ?_)
  rcases List.mem_append.1 (d.flatL_kids_perm.mem_iff.1 hyk) with h | h
  · exact absurd h hyx
  · exact h

theorem findT_r1 (d : Detach root x par n) {c : NodeId} {y : T} (hy : findT c root = some y)
    (hyx : y ∉ flat x) : findT c d.r1 = some (modT par.id (eraseId n) y) :=
  (findT_eq_some_iff d.r1N).2 ⟨d.survive (findT_some_mem hy) hyx, by rw [modT_id]; exact findT_some_id hy⟩

/-- the members of the detached tree come from the old tree (without the structure). -/
theorem r1_mem (d : Detach root x par n) {y : T} (hy : y ∈ flat d.r1) :
    (∃ z ∈ flat root, y = modT par.id (eraseId n) z) ∨ y ∈ flatL (eraseId n par.kids) :=
  mem_flat_modT_of d.hN d.findT_par hy

theorem sib (d : Detach root x par n) (hs : ∀ y ∈ flat root, (y.kids.map T.did).Nodup) :
    ∀ y ∈ flat d.r1, (y.kids.map T.did).Nodup := by
  refine sibUnique_modT d.hN d.findT_par hs ?_ ?_
  · exact List.Nodup.sublist ((eraseId_sublist n par.kids).map T.did) (hs par d.par_mem)
  · intro y hy
    exact hs y (mem_flat_of_mem_flatL_kids_of_mem ((flatL_eraseId_sublist n par.kids).subset hy) d.par_mem)

/-- the data id of the detached child does not occur among the remaining children. -/
theorem did_not_mem_rest (d : Detach root x par n) (hs : (par.kids.map T.did).Nodup) :
    ∀ k ∈ eraseId n par.kids, k.did ≠ x.did := by
  have := (d.kids_perm.map T.did).nodup_iff.1 hs
  rw [List.map_cons, List.nodup_cons] at this
  intro k hk hkd
  exact this.1 (List.mem_map.2 ⟨k, hk, hkd⟩)

/-- a node that is not the parent does not have `n` among its children. -/
theorem not_kid_of_ne (d : Detach root x par n) {y : T} (hy : y ∈ flat root) (hne : y.id ≠ par.id) :
    n ∉ y.kids.map T.id := by
  intro hm
  obtain ⟨k, hk, hkn⟩ := List.mem_map.1 hm
  have h1 := findParent_of_mem_kids d.hN hy hk
  rw [hkn, d.hpar] at h1
  exact hne (congrArg T.id (Option.some.inj h1)).symm

/-- the child records of a surviving node: the parent loses `n`, everybody else keeps the list. -/
theorem kids_info (d : Detach root x par n) {y : T} (hy : y ∈ flat root) :
    (modT par.id (eraseId n) y).kids.map T.info = (eraseId n y.kids).map T.info := by
  by_cases hyp : y.id = par.id
  · rw [modT_kids, if_pos hyp]
  · rw [modT_kids_map_info hyp, eraseId_of_not_mem (d.not_kid_of_ne hy hyp)]

end Detach

/-! ### the `before` validation of `moveTo` -/

/-- the `before` validation of `move_to` against the target's children `rest` (the moved node
already taken out). -/
def moveIns (n : NodeId) (rest : List T) (before : Before) : Except Err (List T → T → List T) :=
  match (if before = .bTrue then Before.idx 0 else before) with
  | .node b => if b = n then Except.error Err.value
               else insertPosition rest false (if before = .bTrue then Before.idx 0 else before)
  | .idx i => if rest.isEmpty then (if i = 0 ∨ i = 1 then Except.ok (fun l x => l ++ [x]) else .error .assertion)
              else .ok (fun l x => pyInsert i x l)
  | b => insertPosition rest false b

theorem moveTo_eq (t : Tree) (n newParent : NodeId) (before : Before) :
    t.moveTo n newParent before =
      if t.typed then .error .notImplemented
      else match findT n t.root, t.parentId n, findT newParent t.root with
        | some x, some oldP, some np =>
          if newParent = n ∨ (findT newParent x).isSome then .error .value
          else match moveIns n (eraseId n np.kids) before with
            | .error e => .error e
            | .ok ins =>
              if oldP != newParent && (eraseId n np.kids).any (fun k => k.did == x.did) then .error .unique
              else .ok { t with root := modT newParent (fun l => ins l x) (modT oldP (eraseId n) t.root),
                                rootNone := t.rootNone || (oldP == 0 && (modT oldP (eraseId n) t.root).kids.isEmpty) }
        | _, _, _ => .error .other := by
  rfl

/-- every accepted `before` yields an insertion. -/
theorem moveIns_perm {n : NodeId} {rest : List T} {before : Before} {ins : List T → T → List T}
    (h : moveIns n rest before = .ok ins) (l : List T) (y : T) : (ins l y).Perm (y :: l) := by
  unfold moveIns at h
  split at h
  · split at h
    · cases h
    · exact insertPosition_perm h l y
  · split at h
    · split at h
      · cases h; exact List.perm_append_singleton y l
      · cases h
    · cases h; exact pyInsert_perm _ y l
  · exact insertPosition_perm h l y

/-- the only refusals of the `before` validation are ValueError and AssertionError. -/
theorem moveIns_error {n : NodeId} {rest : List T} {before : Before} {e : Err}
    (h : moveIns n rest before = .error e) : e = .value ∨ e = .assertion := by
  have hip : ∀ b, insertPosition rest false b = .error e → e = .value ∨ e = .assertion := by
    intro b hb
    unfold insertPosition at hb
    split at hb
    · split at hb
      · cases hb
      · cases hb; exact Or.inl rfl
    · cases hb
    · cases hb
    · cases hb
    · simp at hb
  unfold moveIns at h
  split at h
  · split at h
    · cases h; exact Or.inl rfl
    · exact hip _ h
  · split at h
    · split at h
      · cases h
      · cases h; exact Or.inr rfl
    · cases h
  · exact hip _ h

theorem parentId_eq_some {t : Tree} {n p : NodeId} (h : t.parentId n = some p) :
    ∃ par, findParent n t.root = some par ∧ par.id = p := by
  unfold Tree.parentId at h
  cases hf : findParent n t.root with
  | none => rw [hf] at h; cases h
  | some par => rw [hf] at h; exact ⟨par, rfl, by simpa using h⟩

theorem parentId_of_findParent {t : Tree} {n : NodeId} {par : T} (h : findParent n t.root = some par) :
    t.parentId n = some par.id := by
  unfold Tree.parentId; rw [h]; rfl

/-- what a successful `moveTo` did. -/
theorem moveTo_ok {t t' : Tree} {n newParent : NodeId} {before : Before}
    (hr : t.moveTo n newParent before = .ok t') :
    ∃ x par np ins, t.typed = false ∧ findT n t.root = some x ∧ findParent n t.root = some par ∧
      findT newParent t.root = some np ∧ newParent ≠ n ∧ findT newParent x = none ∧
      moveIns n (eraseId n np.kids) before = .ok ins ∧
      (par.id ≠ newParent → ∀ k ∈ eraseId n np.kids, k.did ≠ x.did) ∧
      t' = { t with root := modT newParent (fun l => ins l x) (modT par.id (eraseId n) t.root),
                    rootNone := t.rootNone || (par.id == 0 && (modT par.id (eraseId n) t.root).kids.isEmpty) } := by
  rw [moveTo_eq] at hr
  split at hr
  · cases hr
  · rename_i htyped
    split at hr
    · rename_i x oldP np hx hp hnp
      split at hr
      · cases hr
      · rename_i hcond
        split at hr
        · cases hr
        · rename_i ins hins
          split at hr
          · cases hr
          · rename_i hu
            obtain ⟨par, hpar, rfl⟩ := parentId_eq_some hp
            rw [not_or] at hcond
            refine ⟨x, par, np, ins, by simpa using htyped, hx, hpar, hnp, hcond.1, ?_, hins, ?_, ?_⟩
            · cases hf : findT newParent x with
              | none => rfl
              | some _ => rw [hf] at hcond; exact absurd rfl hcond.2
            · intro hne k hk hkd
              apply hu
              rw [Bool.and_eq_true]
              exact ⟨by simpa using hne, List.any_eq_true.2 ⟨k, hk, by simpa using hkd⟩⟩
            · cases hr; rfl
    · cases hr

/-! ### the moved tree -/

/-- the situation of a move: detach `x` (node `n`, parent `par`), attach it below `np` (node
`newParent`, not inside the moved branch) by the insertion `g`. -/
structure Move (root x par np : T) (n newParent : NodeId) (g : List T → List T) : Prop
    extends Detach root x par n where
  hnp : findT newParent root = some np
  hnd : findT newParent x = none
  hg : ∀ l, (g l).Perm (x :: l)

namespace Move
variable {root x par np : T} {n newParent : NodeId} {g : List T → List T}

theorem det (m : Move root x par np n newParent g) : Detach root x par n := m.toDetach

theorem np_not_mem_x (m : Move root x par np n newParent g) : np ∉ flat x := by
  intro h
  exact findT_eq_none.1 m.hnd (mem_ids.2 ⟨np, h, findT_some_id m.hnp⟩)

/-- the target after the detach. -/
abbrev q1 (_ : Move root x par np n newParent g) : T := modT par.id (eraseId n) np

theorem findT_q1 (m : Move root x par np n newParent g) : findT newParent m.det.r1 = some m.q1 :=
  m.det.findT_r1 m.hnp m.np_not_mem_x

theorem q1_kids_info (m : Move root x par np n newParent g) :
    m.q1.kids.map T.info = (eraseId n np.kids).map T.info :=
  m.det.kids_info (findT_some_mem m.hnp)

theorem q1_kids_did (m : Move root x par np n newParent g) :
    m.q1.kids.map T.did = (eraseId n np.kids).map T.did := by
  have := congrArg (List.map Info.did) m.q1_kids_info
  simpa [List.map_map, Function.comp_def] using this

/-- the tree after the move. -/
abbrev r2 (m : Move root x par np n newParent g) : T := modT newParent g m.det.r1

theorem infos_perm (m : Move root x par np n newParent g) : (infos m.r2).Perm (infos root) := by
  have h1 := attach_infos_perm (g := g) m.det.r1N m.findT_q1 (m.hg _)
  have h2 := detach_infos_perm m.hN m.hx m.hpar
  exact h1.trans (List.perm_append_comm.trans h2)

theorem kids_infos_perm (m : Move root x par np n newParent g) :
    (infosL m.r2.kids).Perm (infosL root.kids) := by
  have h := m.infos_perm
  rw [infos_eq, infos_eq root, modT_info, modT_info] at h
  exact h.cons_inv

theorem r2N (m : Move root x par np n newParent g) : C10.IdsNodup m.r2 := by
  unfold C10.IdsNodup
  rw [ids_eq_infos, (m.infos_perm.map Info.id).nodup_iff, ← ids_eq_infos]
  exact m.hN

/-- the target after the move. -/
abbrev q2 (m : Move root x par np n newParent g) : T := .node m.q1.info (g m.q1.kids)

theorem findT_q2 (m : Move root x par np n newParent g) : findT newParent m.r2 = some m.q2 :=
  findT_modT_self_of m.findT_q1

theorem x_mem_r2 (m : Move root x par np n newParent g) : x ∈ flat m.r2 := by
  refine mem_flat_modT_new m.findT_q1 (mem_flatL.2 ⟨x, ?_, self_mem_flat x⟩)
  exact (m.hg _).mem_iff.2 (List.mem_cons_self)

/-- the moved branch is found, unchanged. -/
theorem findT_x (m : Move root x par np n newParent g) : findT n m.r2 = some x :=
  (findT_eq_some_iff m.r2N).2 ⟨m.x_mem_r2, m.det.x_id⟩

/-- its parent is the target. -/
theorem findParent_x (m : Move root x par np n newParent g) : findParent n m.r2 = some m.q2 := by
  refine (findParent_eq_some_iff m.r2N).2 ⟨findT_some_mem m.findT_q2, x, ?_, m.det.x_id⟩
  exact (m.hg _).mem_iff.2 (List.mem_cons_self)

/-- every node of the old tree survives (those of the moved branch literally). -/
theorem survive (m : Move root x par np n newParent g) {y : T} (hy : y ∈ flat root) :
    (y ∈ flat x ∧ y ∈ flat m.r2) ∨
      (y ∉ flat x ∧ modT newParent g (modT par.id (eraseId n) y) ∈ flat m.r2) := by
  by_cases hyx : y ∈ flat x
  · exact Or.inl ⟨hyx, mem_flat_trans hyx m.x_mem_r2⟩
  · refine Or.inr ⟨hyx, modT_mem_flat_of m.det.r1N m.findT_q1 (m.det.survive hy hyx) (fun hk => ?_)⟩
    have := flatL_perm (m.hg m.q1.kids)
    rw [flatL_cons] at this
    exact this.mem_iff.2 (List.mem_append_right _ hk)

/-- a node other than the old and the new parent keeps the identities of its children. -/
theorem findT_other (m : Move root x par np n newParent g) {c : NodeId} {y : T}
    (hy : findT c root = some y) (h1 : c ≠ newParent) (h2 : c ≠ par.id) :
    ∃ y', findT c m.r2 = some y' ∧ y'.kids.map T.id = y.kids.map T.id := by
  have hyid := findT_some_id hy
  rcases m.survive (findT_some_mem hy) with ⟨_, h⟩ | ⟨_, h⟩
  · exact ⟨y, (findT_eq_some_iff m.r2N).2 ⟨h, hyid⟩, rfl⟩
  · refine ⟨_, (findT_eq_some_iff m.r2N).2 ⟨h, by rw [modT_id, modT_id]; exact hyid⟩, ?_⟩
    rw [modT_kids_map_id (by rw [modT_id, hyid]; exact h1), modT_kids_map_id (by rw [hyid]; exact h2)]

theorem sib (m : Move root x par np n newParent g) (hs : ∀ y ∈ flat root, (y.kids.map T.did).Nodup)
    (hu : par.id ≠ newParent → ∀ k ∈ eraseId n np.kids, k.did ≠ x.did) :
    ∀ y ∈ flat m.r2, (y.kids.map T.did).Nodup := by
  have hs1 := m.det.sib hs
  have hq1m := findT_some_mem m.findT_q1
  refine sibUnique_modT m.det.r1N m.findT_q1 hs1 ?_ ?_
  · rw [((m.hg _).map T.did).nodup_iff, List.map_cons, List.nodup_cons]
    refine ⟨?_, hs1 _ hq1m⟩
    rw [m.q1_kids_did]
    intro hm
    obtain ⟨k, hk, hkd⟩ := List.mem_map.1 hm
    by_cases hpn : par.id = newParent
    · have : np = par := eq_of_id_eq m.hN (findT_some_mem m.hnp) m.det.par_mem
        ((findT_some_id m.hnp).trans hpn.symm)
      subst this
      exact m.det.did_not_mem_rest (hs _ m.det.par_mem) k hk hkd
    · exact hu hpn k hk hkd
  · intro y hy
    have := flatL_perm (m.hg m.q1.kids)
    rw [flatL_cons] at this
    rcases List.mem_append.1 (this.mem_iff.1 hy) with h | h
    · exact hs y (mem_flat_trans h m.det.x_mem)
    · exact hs1 y (mem_flat_of_mem_flatL_kids_of_mem h hq1m)

end Move

/-- **A move keeps the state well-formed.** -/
theorem WF_move {t t' : Tree} {x par np : T} {n newParent : NodeId} {g : List T → List T} (h : WF t)
    (m : Move t.root x par np n newParent g)
    (hu : par.id ≠ newParent → ∀ k ∈ eraseId n np.kids, k.did ≠ x.did)
    (hr : t'.root = modT newParent g (modT par.id (eraseId n) t.root))
    (hi : t'.byId = t.byId) (hd : t'.byData = t.byData) : WF t' := by
  refine WF.of_infos_perm h ?_ hi hd ?_ ?_
  · rw [hr, modT_id, modT_id]
  · rw [hr]; exact m.kids_infos_perm
  · unfold SibUnique; rw [hr]; exact m.sib h.sib hu

/-- the `Move` situation of a successful `moveTo`. -/
theorem moveTo_move {t t' : Tree} {n newParent : NodeId} {before : Before} (h : WF t)
    (hr : t.moveTo n newParent before = .ok t') :
    ∃ (x par np : T) (ins : List T → T → List T), Move t.root x par np n newParent (fun l => ins l x) ∧
      (par.id ≠ newParent → ∀ k ∈ eraseId n np.kids, k.did ≠ x.did) ∧
      t'.root = modT newParent (fun l => ins l x) (modT par.id (eraseId n) t.root) ∧
      t'.byId = t.byId ∧ t'.byData = t.byData := by
  obtain ⟨x, par, np, ins, _, hx, hpar, hnp, _, hnd, hins, hu, rfl⟩ := moveTo_ok hr
  exact ⟨x, par, np, ins, ⟨⟨h.idsN, hx, hpar⟩, hnp, hnd, fun l => moveIns_perm hins l x⟩, hu, rfl, rfl, rfl⟩

/-! ### identities after a move, without well-formedness -/

theorem ids_move_subset {root x : T} {n p oldP : NodeId} {g : List T → List T}
    (hx : findT n root = some x) (hg : ∀ l, (g l).Perm (x :: l)) {a : NodeId}
    (ha : a ∈ (flat (modT p g (modT oldP (eraseId n) root))).map T.id) : a ∈ (flat root).map T.id := by
  have h1 : ∀ b, b ∈ (flat (modT oldP (eraseId n) root)).map T.id → b ∈ (flat root).map T.id :=
    fun b hb => ids_modT_subset (fun _ _ h => idsL_eraseId_subset h) hb
  rcases mem_ids_modT ha with h | ⟨q, hq, _, haq⟩
  · exact h1 a h
  · have := ((flatL_perm (hg q.kids)).map T.id).mem_iff.1 haq
    rw [flatL_cons, List.map_append, List.mem_append] at this
    rcases this with h | h
    · exact ids_subset_of_mem_flat (findT_some_mem hx) h
    · exact h1 a (idsL_kids_subset hq h)

end Nutree
