/-
Specification vocabulary for C19 ("load_tree_from_fs mirrors the directory it scanned"),
written from the property text, not from the code.
-/
import Nutree.Model.Fs
namespace Nutree.Fs

/-! ### One node per file and sub-directory, at the same depth, with the same payload -/

mutual
/-- The node that stands for one entry, children in listing order. -/
def toFNode : Dir → FNode
  | .file n s m => .node n false s (some m) []
  | .dir n es => .node n true 0 none (toFNodes es)
def toFNodes : List Dir → List FNode
  | [] => []
  | d :: ds => toFNode d :: toFNodes ds
end

mutual
/-- `MirrorOne d k`: the node `k` carries the payload of the entry `d` (name, directory flag,
size and modification time for a file; size 0 and no time for a directory), a file has no
children, and the children of a directory mirror its entries. -/
inductive MirrorOne : Dir → FNode → Prop
  | file (n s m) : MirrorOne (.file n s m) (.node n false s (some m) [])
  | dir (n) {es ks} : MirrorPerm es ks → MirrorOne (.dir n es) (.node n true 0 none ks)
/-- `MirrorPerm es ks`: the node list `ks` is a permutation-matching of the listing `es`:
every entry corresponds to exactly one node (the node `k` inserted anywhere into the matching
of the remaining entries), and nothing else is in `ks`. -/
inductive MirrorPerm : List Dir → List FNode → Prop
  | nil : MirrorPerm [] []
  | cons {d k ds ks₁ ks₂} : MirrorOne d k → MirrorPerm ds (ks₁ ++ ks₂) →
      MirrorPerm (d :: ds) (ks₁ ++ k :: ks₂)
end

/-! ### Sorted: files first, by name; then directories, by name — at every level -/

/-- One level: all files precede all directories, and both groups are ordered by `R` on names. -/
def LevelSorted (R : String → String → Prop) (ks : List FNode) : Prop :=
  ks = (ks.filter fun k => !k.isDir) ++ (ks.filter fun k => k.isDir)
  ∧ (ks.filter fun k => !k.isDir).Pairwise (fun a b => R a.name b.name)
  ∧ (ks.filter fun k => k.isDir).Pairwise (fun a b => R a.name b.name)

mutual
def SortedOne (R : String → String → Prop) : FNode → Prop
  | .node _ _ _ _ ks => LevelSorted R ks ∧ SortedAll R ks
def SortedAll (R : String → String → Prop) : List FNode → Prop
  | [] => True
  | k :: ks => SortedOne R k ∧ SortedAll R ks
end

/-- The forest is sorted at every level. -/
def SortedForest (R : String → String → Prop) (ks : List FNode) : Prop :=
  LevelSorted R ks ∧ SortedAll R ks

/-! ### Names within one folder are distinct (what a file system guarantees) -/

mutual
def DistinctOne : Dir → Prop
  | .file .. => True
  | .dir _ es => (es.map Dir.name).Nodup ∧ DistinctAll es
def DistinctAll : List Dir → Prop
  | [] => True
  | d :: ds => DistinctOne d ∧ DistinctAll ds
end

def Distinct (es : List Dir) : Prop := (es.map Dir.name).Nodup ∧ DistinctAll es

/-! ### The same directory, listed in another order -/

mutual
inductive DirPermOne : Dir → Dir → Prop
  | file (n s m) : DirPermOne (.file n s m) (.file n s m)
  | dir (n) {es es'} : DirPerm es es' → DirPermOne (.dir n es) (.dir n es')
/-- `DirPerm es es'`: `es'` lists the same entries as `es`, in any order, at every level. -/
inductive DirPerm : List Dir → List Dir → Prop
  | nil : DirPerm [] []
  | cons {d d' ds l₁ l₂} : DirPermOne d d' → DirPerm ds (l₁ ++ l₂) →
      DirPerm (d :: ds) (l₁ ++ d' :: l₂)
end

end Nutree.Fs
