/-
  Nutree.Spec.WF — well-formedness of a tree state (C01–C03), as a proposition and as the
  decidable check that the driver evaluates on the *implementation's* observed state.
-/
import Nutree.Model.Ops
namespace Nutree
open T

/-- node identities are pairwise distinct (system root included): each node appears exactly once. -/
def IdsNodup (t : Tree) : Prop := ((flat t.root).map T.id).Nodup

/-- `_node_by_id` holds exactly the reachable nodes (so `count` = number of reachable nodes). -/
def RegistryExact (t : Tree) : Prop := t.byId.Perm ((flatL t.root.kids).map T.id)

/-- `_nodes_by_data_id`: distinct keys, no empty list, no node twice, and node `n` is listed
under `d` iff `n` is reachable and carries data_id `d`. -/
structure IndexExact (t : Tree) : Prop where
  keys : (t.byData.map (·.1)).Nodup
  noEmpty : ∀ e ∈ t.byData, e.2 ≠ []
  nodup : ∀ e ∈ t.byData, e.2.Nodup
  exact : ∀ d n, (∃ l, (d, l) ∈ t.byData ∧ n ∈ l) ↔ (∃ x ∈ flatL t.root.kids, x.id = n ∧ x.did = d)

/-- no parent (system root included) has two children with the same data_id. -/
def SibUnique (t : Tree) : Prop := ∀ x ∈ flat t.root, (x.kids.map T.did).Nodup

structure WF (t : Tree) : Prop where
  rootId : t.root.id = 0
  ids : IdsNodup t
  registry : RegistryExact t
  index : IndexExact t
  sib : SibUnique t

/-! Decidable twins -/

def nodupB {α} [BEq α] : List α → Bool
  | [] => true
  | x :: xs => !xs.contains x && nodupB xs

def permB {α} [BEq α] (a b : List α) : Bool :=
  a.length == b.length && a.all (fun x => a.count x == b.count x)

def idsNodupB (t : Tree) : Bool := nodupB ((flat t.root).map T.id)
def registryExactB (t : Tree) : Bool := permB t.byId ((flatL t.root.kids).map T.id)
def indexExactB (t : Tree) : Bool :=
  nodupB (t.byData.map (·.1)) && t.byData.all (fun e => !e.2.isEmpty && nodupB e.2)
  && t.byData.all (fun e => e.2.all fun n => (flatL t.root.kids).any fun x => x.id == n && x.did == e.1)
  && (flatL t.root.kids).all (fun x => t.byData.any fun e => e.1 == x.did && e.2.contains x.id)
def sibUniqueB (t : Tree) : Bool := (flat t.root).all fun x => nodupB (x.kids.map T.did)

def wfB (t : Tree) : Bool :=
  t.root.id == 0 && idsNodupB t && registryExactB t && indexExactB t && sibUniqueB t

end Nutree
