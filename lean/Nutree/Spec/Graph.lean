/-
  Nutree.Spec.Graph — what the graph exports are documented to describe (ug_graphs.rst and the
  property text of C17), independent of the export code:

  * one graph node per distinct data_id (`unique_nodes`) resp. one per tree node, for the nodes
    of the exported branch (the descendants of the start node, plus the start node itself when
    it is included), in order of first occurrence, carrying the node's name;
  * exactly one parent → child edge per node of the branch whose parent is part of the export,
    labelled with the child's kind (typed trees) and carrying the child's name;
  * excluding the root omits the root node and the edges leaving it, nothing else.

  Nodes are addressed by *paths* (child indices relative to the start node): the parent of the
  node at path `q` is the node at `q.dropLast`.  No parent links, no identities.
-/
import Nutree.Model.Graph
import Nutree.Spec.Rel
namespace Nutree
namespace Graph
namespace Spec
open T

/-- keep the first occurrence of every key. -/
def dedupKeys {α} : List (Key × α) → List (Key × α)
  | [] => []
  | x :: xs => x :: (dedupKeys xs).filter (fun y => y.1 != x.1)

/-- the descendants of the start node, pre-order. -/
def branch (start : T) : List T := flatL start.kids

/-- the tree nodes that are part of the export. -/
def exported (addSelf : Bool) (start : T) : List T :=
  (if addSelf then [start] else []) ++ branch start

/-- **Graph nodes**: `(key, name)`; one per distinct data_id (first occurrence) resp. one per tree node. -/
def nodesSpec (unique addSelf : Bool) (start : T) : List (Key × String) :=
  let l := (exported addSelf start).map fun n => (keyOf unique n, n.name)
  if unique then dedupKeys l else l

/-- the keys of the graph nodes, in order of declaration. -/
def keysSpec (unique addSelf : Bool) (start : T) : List Key := (nodesSpec unique addSelf start).map Prod.fst

/-- number the graph nodes consecutively from `i` (Mermaid: the root is number 0, the other
nodes are numbered from 1): `(number, name)`. -/
def numbered : Nat → List (Key × String) → List (Nat × String)
  | _, [] => []
  | i, x :: xs => (i, x.2) :: numbered (i + 1) xs

/-- first number used by the Mermaid export. -/
def firstIdx (addRoot : Bool) : Nat := if addRoot then 0 else 1

mutual
/-- all non-empty paths below a node, pre-order. -/
def relPaths : T → List (List Nat)
  | .node _ ks => relPathsL 0 ks
def relPathsL (k : Nat) : List T → List (List Nat)
  | [] => []
  | c :: cs => ([k] :: (relPaths c).map (k :: ·)) ++ relPathsL (k + 1) cs
end

/-- (parent, node) for every node of the branch whose parent is part of the export: the parent
of the node at `q` is at `q.dropLast`; it is the start node iff `q` has length 1. -/
def edgePairs (addSelf : Bool) (start : T) : List (T × T) :=
  (relPaths start).filterMap fun q =>
    if addSelf || q.length > 1 then
      match start.sub q.dropLast, start.sub q with
      | some p, some n => some (p, n)
      | _, _ => none
    else none

structure Edge where
  parent : Key
  child : Key
  kind : Option String
  name : String
deriving DecidableEq, Repr

def toEdge (unique : Bool) (pn : T × T) : Edge :=
  { parent := keyOf unique pn.1, child := keyOf unique pn.2, kind := pn.2.kind, name := pn.2.name }

/-- **Edges**: for each node of the branch in pre-order whose parent is exported:
(key of the parent, key of the node, the node's kind, the node's name). -/
def edgesSpec (unique addSelf : Bool) (start : T) : List Edge :=
  (edgePairs addSelf start).map (toEdge unique)

/-- number of nodes of the branch whose parent is part of the export. -/
def edgeCount (addSelf : Bool) (start : T) : Nat :=
  ((relPaths start).filter fun q => addSelf || q.length > 1).length

/-- **RDF `has_child` statements**: one per edge; the subject of a parent is `Literal(data_id)`,
except for the system root of `Tree.to_rdf_graph()` (`isTree`), which is the distinguished
`system_root` resource; the parent is the start node iff the path has length 1. -/
def rdfEdgesSpec (isTree addSelf : Bool) (start : T) : List (Subj × DataId) :=
  (relPaths start).filterMap fun q =>
    if isTree || addSelf || q.length > 1 then
      match start.sub q.dropLast, start.sub q with
      | some p, some n => some (if isTree && q.length == 1 then Subj.sysRoot else Subj.lit p.did, n.did)
      | _, _ => none
    else none

/-- **RDF index statements**: the position of every node of the branch among its siblings. -/
def rdfIndexSpec (start : T) : List (DataId × Nat) :=
  (relPaths start).filterMap fun q =>
    match start.sub q, q.getLast? with
    | some n, some i => some (n.did, i)
    | _, _ => none

/-- **The RDF graph** as a set of statements: `has_child` per edge, `name` (and `kind` for typed
nodes) per exported node, `index` per node of the branch; `Tree.to_rdf_graph()` describes the
system root by its name only. -/
def rdfSpec (treeName : String) (isTree addSelf : Bool) (start : T) : List Triple :=
  (rdfEdgesSpec isTree addSelf start).map (fun e => Triple.hasChild e.1 e.2)
  ++ (if isTree then [Triple.name .sysRoot treeName] else [])
  ++ (exported (!isTree && addSelf) start).map (fun n => Triple.name (.lit n.did) n.name)
  ++ (exported (!isTree && addSelf) start).filterMap (fun n => n.kind.map (Triple.kind n.did))
  ++ (rdfIndexSpec start).map (fun e => Triple.index e.1 e.2)

end Spec
end Graph
end Nutree
