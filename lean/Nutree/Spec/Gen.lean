/-
  Nutree.Spec.Gen — what it means for a generated forest to conform to its structure definition
  (docs/sphinx/ug_randomize.rst and the docstrings of nutree/tree_generator.py).

  The specification is declarative: it does not mention draw streams.  `InRange r v` is the set of
  values a randomizer may return, `AttrsOK` the node data allowed for a merged spec at a given
  sibling index / index path, `Conf` the shape of the child list of a parent: one group of children
  per relation, in the order of the relations, the group size admitted by `:count`, the members
  numbered 1, 2, … (`{idx}`), their `{hier_idx}` the dotted path of these numbers.
-/
import Nutree.Model.Generator
namespace Nutree
namespace Gen

/-- JS time stamp (milliseconds since the epoch) of midnight UTC of the day with ordinal `ord`. -/
def stampOfDay (ord : Int) : Int := (ord - 719163) * 86400000

/-- The values `randomizer.generate()` may return.
Every class may return its "skipped" value (`None`, or `none_value` for `RangeRandomizer`) unless
its probability is 1.0.
* `RangeRandomizer` (int): an int in the half-open range `min ≤ i < max` (`random.randrange`);
* `RangeRandomizer` (float): a float (the bounds are checked on the Python side);
* `DateRangeRandomizer`: `min_dt + r` days with `0 ≤ r < delta_days`, as a date or — `as_js_stamp` —
  as the JS time stamp of the *following* midnight UTC (`+ ONE_DAY_SEC` in the code);
* `ValueRandomizer`: the value; `SparseBoolRandomizer`: `True`;
* `SampleRandomizer`: an element of the list (with a positive count if counts are given);
* text randomizers: a string. -/
def InRange : RSpec → Val → Prop
  | .rangeInt lo hi p nv, v => (∃ i, v = .int i ∧ lo ≤ i ∧ i < hi) ∨ (p.isOne = false ∧ v = nv)
  | .rangeFlt _ _ p nv, v => (∃ n d, v = .flt n d) ∨ (p.isOne = false ∧ v = nv)
  | .dateRange lo delta stamp p, v =>
      (∃ r, 0 ≤ r ∧ r < delta ∧
        v = if stamp then .flt (stampOfDay (lo + r + 1)) 1 else .date (lo + r)) ∨
      (p.isOne = false ∧ v = .none)
  | .value x p, v => v = x ∨ (p.isOne = false ∧ v = .none)
  | .sparseBool p, v => v = .bool true ∨ (p.isOne = false ∧ v = .none)
  | .sample vs cs p, v =>
      (∃ i, vs[i]? = some v ∧ ∀ c, cs = some c → 0 < c.getD i 0) ∨ (p.isOne = false ∧ v = .none)
  | .text p, v => (∃ s, v = .str s) ∨ (p.isOne = false ∧ v = .none)

/-- the dotted index path `"2.1.3"` (`{hier_idx}`) -/
def hierIdx (path : List Nat) : String := ".".intercalate (path.map toString)

/-- Node data allowed for the spec `body` of a node with sibling index `idx` and index path `hier`:
in the order of the spec, a constant contributes itself, a randomizer either nothing (it returned
`None`) or a value of its range; strings have their macros expanded. -/
inductive AttrsOK (idx : Nat) (hier : String) : Spec → Attrs → Prop
  | nil : AttrsOK idx hier [] []
  | const {k v v' body attrs} : fmtVal idx hier v = some v' → AttrsOK idx hier body attrs →
      AttrsOK idx hier ((k, .const v) :: body) ((k, v') :: attrs)
  | skip {k r body attrs} : InRange r .none → AttrsOK idx hier body attrs →
      AttrsOK idx hier ((k, .rnd r) :: body) attrs
  | gen {k r raw v' body attrs} : InRange r raw → raw ≠ .none → fmtVal idx hier raw = some v' →
      AttrsOK idx hier body attrs → AttrsOK idx hier ((k, .rnd r) :: body) ((k, v') :: attrs)

/-- Group sizes admitted by the `:count` entry of a merged spec: 1 if there is none, the constant,
or (the count value of) a value of the randomizer's range (`None` counts as 0). -/
def CountOK : Option SVal → Nat → Prop
  | none, n => n = 1
  | some (.const v), n => countOf v = some n
  | some (.rnd r), n => ∃ v, InRange r v ∧ countOf v = some n

/-- What is being described: the children of a parent of type `ptype` at index path `path`; the
children for a (rest of a) relation list; the members `i, i+1, …, i+n-1` of one relation group. -/
inductive Goal
  | kids (ptype : String) (path : List Nat)
  | rels (path : List Nat) (rels : List (String × Spec))
  | group (ntype : String) (body : Spec) (path : List Nat) (i n : Nat)

/-- The child list conforms to the structure definition. -/
inductive Conf (d : Def) (typed : Bool) : Goal → List GNode → Prop
  | kids {ptype path rels ks} : lookup ptype d.relations = some rels →
      Conf d typed (.rels path rels) ks → Conf d typed (.kids ptype path) ks
  | relsNil {path} : Conf d typed (.rels path []) []
  | relsCons {path ntype spec rels n g rest} :
      CountOK (countSpec (mergeSpecs ntype spec d.types)) n →
      Conf d typed (.group ntype (attrSpec (mergeSpecs ntype spec d.types)) path 1 n) g →
      Conf d typed (.rels path rels) rest →
      Conf d typed (.rels path ((ntype, spec) :: rels)) (g ++ rest)
  | groupNil {ntype body path i} : Conf d typed (.group ntype body path i 0) []
  | groupCons {ntype body path i n attrs kids rest} :
      AttrsOK i (hierIdx (path ++ [i])) body attrs →
      (hasRel d ntype = true → Conf d typed (.kids ntype (path ++ [i])) kids) →
      (hasRel d ntype = false → kids = []) →
      Conf d typed (.group ntype body path (i + 1) n) rest →
      Conf d typed (.group ntype body path i (n + 1)) (.mk ntype (kindOf typed ntype) attrs kids :: rest)

/-- The forest (top nodes) conforms to the structure definition. -/
def Conforms (d : Def) (typed : Bool) (forest : List GNode) : Prop :=
  Conf d typed (.kids "__root__" []) forest

/-! ### statements about every parent of the forest -/

mutual
/-- `P parentType children` holds for this node and every node below it -/
def GNode.All (P : String → List GNode → Prop) : GNode → Prop
  | .mk ty _ _ ks => P ty ks ∧ GNode.AllL P ks
def GNode.AllL (P : String → List GNode → Prop) : List GNode → Prop
  | [] => True
  | k :: ks => GNode.All P k ∧ GNode.AllL P ks
end

/-- `P parentType children` holds for the system root (`"__root__"`) and for every node. -/
def ForestAll (P : String → List GNode → Prop) (forest : List GNode) : Prop :=
  P "__root__" forest ∧ GNode.AllL P forest

/-- the type sequence `r₁ × n₁ ++ r₂ × n₂ ++ …` -/
def groupedTypes (rels : List (String × Spec)) (counts : List Nat) : List String :=
  (List.zipWith (fun r n => List.replicate n r.1) rels counts).flatten

/-- the group sizes `counts` are admitted by the `:count` entries of the relations, one by one -/
inductive CountsOK (d : Def) : List (String × Spec) → List Nat → Prop
  | nil : CountsOK d [] []
  | cons {r rels n counts} : CountOK (countSpec (mergeSpecs r.1 r.2 d.types)) n →
      CountsOK d rels counts → CountsOK d (r :: rels) (n :: counts)

/-- Where an attribute value comes from: a constant of the spec (macros expanded) or a randomizer,
in which case it is a non-`None` value of its range (macros expanded). -/
def AttrValOK : SVal → Val → Prop
  | .const c, v => ∃ idx hier, fmtVal idx hier c = some v
  | .rnd r, v => ∃ raw, InRange r raw ∧ raw ≠ .none ∧ ∃ idx hier, fmtVal idx hier raw = some v

end Gen
end Nutree
