/-
  Nutree.Spec.Defaults — the DOCUMENTED default values of the keyword arguments of the public API,
  written down from the API reference (docs/sphinx reference pages render these signatures) and the
  user guide at the pinned commit.  Hand-maintained: the regenerated table
  `Nutree.Generated.defaults<Cxx>` must equal it (Properties/Defaults<Cxx>.lean).
-/
namespace Nutree.Spec.Defaults

def documentedC04 : List (String × String) := [
  ("Node.add_child.before", "None"),
  ("Node.add_child.deep", "None"),
  ("Node.add_child.data_id", "None"),
  ("Node.append_child.deep", "None"),
  ("Node.append_child.data_id", "None"),
  ("Node.prepend_child.deep", "None"),
  ("Node.prepend_child.data_id", "None"),
  ("Node.prepend_sibling.deep", "None"),
  ("Node.prepend_sibling.data_id", "None"),
  ("Node.append_sibling.deep", "None"),
  ("Node.append_sibling.data_id", "None"),
  ("Node.move_to.before", "None"),
  ("Node.remove.keep_children", "False"),
  ("Node.remove.with_clones", "False"),
  ("Node.sort_children.key", "None"),
  ("Node.sort_children.reverse", "False"),
  ("Node.sort_children.deep", "False"),
  ("Tree.sort.key", "None"),
  ("Tree.sort.reverse", "False"),
  ("Tree.sort.deep", "True"),
  ("Node.set_data.data_id", "None"),
  ("Node.set_data.with_clones", "None"),
  ("Node.clear_meta.key", "None"),
  ("Node.update_meta.replace", "False"),
  ("Tree.add_child.before", "None"),
  ("Tree.add_child.deep", "None"),
  ("Tree.add_child.data_id", "None"),
  ("TypedNode.add_child.kind", "None"),
  ("TypedNode.add_child.before", "None"),
  ("TypedNode.add_child.deep", "None"),
  ("TypedNode.add_child.data_id", "None"),
  ("TypedNode.append_child.kind", "None"),
  ("TypedNode.append_child.deep", "None"),
  ("TypedNode.append_child.data_id", "None"),
  ("TypedNode.prepend_child.kind", "None"),
  ("TypedNode.prepend_child.deep", "None"),
  ("TypedNode.prepend_child.data_id", "None"),
  ("TypedTree.add_child.kind", "None"),
  ("TypedTree.add_child.before", "None"),
  ("TypedTree.add_child.deep", "None"),
  ("TypedTree.add_child.data_id", "None")
]

def documentedC06 : List (String × String) := [
  ("Node.iterator.method", "IterMethod.PRE_ORDER"),
  ("Node.iterator.add_self", "False"),
  ("Tree.iterator.method", "IterMethod.PRE_ORDER"),
  ("TypedNode.iterator.method", "IterMethod.PRE_ORDER"),
  ("TypedNode.iterator.add_self", "False"),
  ("Node.visit.add_self", "False"),
  ("Node.visit.method", "IterMethod.PRE_ORDER"),
  ("Node.visit.memo", "None"),
  ("Tree.visit.method", "IterMethod.PRE_ORDER"),
  ("Tree.visit.memo", "None")
]

def documentedC07 : List (String × String) := [
  ("Node.copy.add_self", "True"),
  ("Node.copy.predicate", "None"),
  ("Node.copy_to.add_self", "True"),
  ("Node.copy_to.before", "None"),
  ("Node.copy_to.deep", "False"),
  ("Tree.copy.name", "None"),
  ("Tree.copy.predicate", "None"),
  ("Tree.copy_to.deep", "True"),
  ("TypedNode.copy.add_self", "True"),
  ("TypedNode.copy.predicate", "None")
]

def documentedC09 : List (String × String) := [
  ("Node.find_all.data", "None"),
  ("Node.find_all.match", "None"),
  ("Node.find_all.data_id", "None"),
  ("Node.find_all.add_self", "False"),
  ("Node.find_all.max_results", "None"),
  ("Node.find_first.data", "None"),
  ("Node.find_first.match", "None"),
  ("Node.find_first.data_id", "None"),
  ("Tree.find_all.data", "None"),
  ("Tree.find_all.match", "None"),
  ("Tree.find_all.data_id", "None"),
  ("Tree.find_all.max_results", "None"),
  ("Tree.find_first.data", "None"),
  ("Tree.find_first.match", "None"),
  ("Tree.find_first.data_id", "None"),
  ("Tree.find_first.node_id", "None")
]

def documentedC10 : List (String × String) := [
  ("Node.get_siblings.add_self", "False"),
  ("Node.get_parent_list.add_self", "False"),
  ("Node.get_parent_list.bottom_up", "False"),
  ("Node.get_path.add_self", "True"),
  ("Node.get_path.separator", "'/'"),
  ("Node.get_path.repr", "'{node.name}'"),
  ("Node.count_descendants.leaves_only", "False"),
  ("Node.up.level", "1"),
  ("Node.get_clones.add_self", "False")
]

def documentedC11 : List (String × String) := [
  ("Tree.diff.ordered", "False"),
  ("Tree.diff.reduce", "False"),
  ("diff_tree.ordered", "False"),
  ("diff_tree.reduce", "False")
]

def documentedC12 : List (String × String) := [
  ("Tree.save.compression", "False"),
  ("Tree.save.mapper", "None"),
  ("Tree.save.meta", "None"),
  ("Tree.save.key_map", "True"),
  ("Tree.save.value_map", "True"),
  ("Tree.load.mapper", "None"),
  ("Tree.load.file_meta", "None"),
  ("Tree.load.auto_uncompress", "True"),
  ("TypedTree.save.compression", "False"),
  ("TypedTree.save.mapper", "None"),
  ("TypedTree.save.meta", "None"),
  ("TypedTree.save.key_map", "True"),
  ("TypedTree.save.value_map", "True"),
  ("Node.to_list_iter.mapper", "None"),
  ("Node.to_list_iter.key_map", "None"),
  ("Node.to_list_iter.value_map", "None")
]

def documentedC14 : List (String × String) := [
  ("Tree.to_dict_list.mapper", "None"),
  ("Tree.from_dict.mapper", "None"),
  ("Node.to_dict.mapper", "None"),
  ("Node.from_dict.mapper", "None")
]

def documentedC15 : List (String × String) := [
  ("TypedNode.get_siblings.add_self", "False"),
  ("TypedNode.get_siblings.any_kind", "False"),
  ("TypedNode.first_sibling.any_kind", "False"),
  ("TypedNode.last_sibling.any_kind", "False"),
  ("TypedNode.prev_sibling.any_kind", "False"),
  ("TypedNode.next_sibling.any_kind", "False"),
  ("TypedNode.get_index.any_kind", "False"),
  ("TypedNode.is_first_sibling.any_kind", "False"),
  ("TypedNode.is_last_sibling.any_kind", "False"),
  ("TypedNode.get_children.kind", "<required>"),
  ("TypedNode.first_child.kind", "<required>"),
  ("TypedNode.last_child.kind", "<required>"),
  ("TypedNode.has_children.kind", "<required>")
]

def documentedC16 : List (String × String) := [
  ("Node.format.repr", "None"),
  ("Node.format.style", "None"),
  ("Node.format.add_self", "True"),
  ("Node.format.join", "'\\n'"),
  ("Node.format_iter.repr", "None"),
  ("Node.format_iter.style", "None"),
  ("Node.format_iter.add_self", "True"),
  ("Tree.format.repr", "None"),
  ("Tree.format.style", "None"),
  ("Tree.format.title", "None"),
  ("Tree.format.join", "'\\n'"),
  ("Tree.format_iter.repr", "None"),
  ("Tree.format_iter.style", "None"),
  ("Tree.format_iter.title", "None")
]

def documentedC17 : List (String × String) := [
  ("Node.to_dot.add_self", "False"),
  ("Node.to_dot.unique_nodes", "True"),
  ("Node.to_dot.graph_attrs", "None"),
  ("Node.to_dot.node_attrs", "None"),
  ("Node.to_dot.edge_attrs", "None"),
  ("Node.to_dot.node_mapper", "None"),
  ("Node.to_dot.edge_mapper", "None"),
  ("Tree.to_dot.add_root", "True"),
  ("Tree.to_dot.unique_nodes", "True"),
  ("Tree.to_dot.graph_attrs", "None"),
  ("Tree.to_dot.node_attrs", "None"),
  ("Tree.to_dot.edge_attrs", "None"),
  ("Tree.to_dot.node_mapper", "None"),
  ("Tree.to_dot.edge_mapper", "None"),
  ("Node.to_mermaid_flowchart.as_markdown", "True"),
  ("Node.to_mermaid_flowchart.direction", "'TD'"),
  ("Node.to_mermaid_flowchart.title", "True"),
  ("Node.to_mermaid_flowchart.add_self", "True"),
  ("Node.to_mermaid_flowchart.unique_nodes", "True"),
  ("Node.to_mermaid_flowchart.headers", "None"),
  ("Node.to_mermaid_flowchart.node_mapper", "None"),
  ("Node.to_mermaid_flowchart.edge_mapper", "None"),
  ("Tree.to_mermaid_flowchart.as_markdown", "True"),
  ("Tree.to_mermaid_flowchart.direction", "'TD'"),
  ("Tree.to_mermaid_flowchart.title", "True"),
  ("Tree.to_mermaid_flowchart.add_root", "True"),
  ("Tree.to_mermaid_flowchart.unique_nodes", "True"),
  ("Tree.to_mermaid_flowchart.headers", "None"),
  ("Tree.to_mermaid_flowchart.node_mapper", "None"),
  ("Tree.to_mermaid_flowchart.edge_mapper", "None"),
  ("Node.to_rdf_graph.add_self", "True"),
  ("Node.to_rdf_graph.node_mapper", "None")
]

def documentedC19 : List (String × String) := [
  ("load_tree_from_fs.sort", "True")
]

end Nutree.Spec.Defaults
