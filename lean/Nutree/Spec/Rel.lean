/-
  Nutree.Spec.Rel — the relationships "as they follow from the parent/children structure",
  stated through *paths*: a node is addressed by the list of child indices leading to it
  from the system root; every relationship is a statement about paths.  No parent links,
  no searching by identity.
-/
import Nutree.Model.Basic
namespace Nutree
open T

/-- The nodes along a non-empty path, top-most first (the system root is not included). -/
def pathNodes (root : T) : List Nat → List T
  | [] => []
  | i :: rest => match root.kids[i]? with
    | some c => c :: pathNodes c rest
    | none => []

namespace SpecRel

/-- parent: the node one step up the path, unless that is the system root. -/
def parent (root : T) (p : List Nat) : Option T :=
  if p.length ≤ 1 then none else root.sub p.dropLast

/-- `up(k)`: k steps up the path; the system root is reachable; beyond it / k < 1 is an error (`none`). -/
def up (root : T) (p : List Nat) (k : Int) : Option T :=
  if k < 1 ∨ k.toNat > p.length then none else root.sub (p.take (p.length - k.toNat))

def depth (p : List Nat) : Nat := p.length

/-- all children of the parent (system root included as a parent). -/
def siblingsAll (root : T) (p : List Nat) : List T :=
  match root.sub p.dropLast with
  | some par => par.kids
  | none => []

def index (p : List Nat) : Option Nat := p.getLast?

def siblings (root : T) (p : List Nat) (addSelf : Bool) : List T :=
  let all := siblingsAll root p
  if addSelf then all else
    match p.getLast? with
    | some i => all.eraseIdx i
    | none => all

def prev (root : T) (p : List Nat) : Option T :=
  match p.getLast? with
  | some (i + 1) => (siblingsAll root p)[i]?
  | _ => none

def next (root : T) (p : List Nat) : Option T :=
  match p.getLast? with
  | some i => (siblingsAll root p)[i + 1]?
  | none => none

def isFirst (p : List Nat) : Bool := p.getLast? == some 0
def isLast (root : T) (p : List Nat) : Bool :=
  match p.getLast? with
  | some i => i + 1 == (siblingsAll root p).length
  | none => false

def isTop (p : List Nat) : Bool := p.length == 1

/-- ancestors below the system root, top-most first. -/
def parentList (root : T) (p : List Nat) (addSelf : Bool) : List T :=
  if addSelf then pathNodes root p else pathNodes root p.dropLast

def top (root : T) (p : List Nat) : Option T := (pathNodes root p).head?

/-- strict descendant: `q` (the other node's path) is a proper, non-empty prefix of `p`. -/
def isDescendantOf (p q : List Nat) : Bool := q != [] && q.length < p.length && q.isPrefixOf p

def commonPrefix : List Nat → List Nat → List Nat
  | a :: as, b :: bs => if a == b then a :: commonPrefix as bs else []
  | _, _ => []

/-- nearest common ancestor (a node counts as its own ancestor); `none` across top-level branches. -/
def lca (root : T) (p q : List Nat) : Option T :=
  let c := commonPrefix p q
  if c == [] then none else root.sub c

def countDescendants (self : T) (leavesOnly : Bool) : Nat :=
  ((flatL self.kids).filter fun n => !leavesOnly || n.kids.isEmpty).length

def path (root : T) (p : List Nat) (addSelf : Bool) : String :=
  "/" ++ "/".intercalate ((parentList root p addSelf).map T.name)

end SpecRel
end Nutree
