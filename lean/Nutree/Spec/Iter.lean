/-
  Nutree.Spec.Iter — declarative specification of the traversal orders (C06), written from
  docs/sphinx/ug_basics.rst ("Iteration") and the `IterMethod` docstrings, independently of
  the loops in node.py:

  * pre-order        = a node, then its children's branches left to right          (`flatL`)
  * post-order       = the children's branches left to right, then the node       (`postL`)
  * level-order      = all nodes of depth 1 left to right, then depth 2, …         (`levelsL`)
  * right-to-left    = every level reversed;  zigzag = every second level reversed (`dirs`)
  * skip             = the callback is not called on any descendant of the node    (`pruneL`)
  * stop             = nothing after the stopping call                             (`takeThrough`)
-/
import Nutree.Model.Iter
namespace Nutree
open T

mutual
def post : T → List T
  | .node i ks => postL ks ++ [T.node i ks]
def postL : List T → List T
  | [] => []
  | t :: ts => post t ++ postL ts
end

/-- Level-wise concatenation of two lists of levels. -/
def zipApp {α} : List (List α) → List (List α) → List (List α)
  | [], ys => ys
  | xs, [] => xs
  | x :: xs, y :: ys => (x ++ y) :: zipApp xs ys

mutual
/-- `levels t` = [[t], children of t, grandchildren of t, …]. -/
def levels : T → List (List T)
  | .node i ks => [T.node i ks] :: levelsL ks
/-- `levelsL ts` = [ts, all children of ts, …] (left to right within each level). -/
def levelsL : List T → List (List T)
  | [] => []
  | t :: ts => zipApp (levels t) (levelsL ts)
end

/-- Direction per level: reversed iff `rev`, flipping after each level iff `tog`. -/
def dirs {α} (rev tog : Bool) : List (List α) → List (List α)
  | [] => []
  | l :: ls => (if rev then l.reverse else l) :: dirs (if tog then !rev else rev) tog ls

def specLevel (rev tog : Bool) (ks : List T) : List T := (dirs rev tog (levelsL ks)).flatten

/-- Documented order of the descendants of a node whose children are `ks`. -/
def specOrder (m : Method) (ks : List T) : Option (List T) :=
  match m with
  | .pre => some (flatL ks)
  | .post => some (postL ks)
  | .level => some (specLevel false false ks)
  | .levelRtl => some (specLevel true false ks)
  | .zigzag => some (specLevel false true ks)
  | .zigzagRtl => some (specLevel true true ks)
  | _ => none

/-- `add_self` puts the start node first, or last for post-order. -/
def specIterator (m : Method) (addSelf : Bool) (t : T) : Option (List T) :=
  (specOrder m t.kids).map fun xs =>
    if !addSelf then xs else if m == .post then xs ++ [t] else t :: xs

/-! ### depth (independent characterisation of the levels) -/

mutual
/-- The subtree's nodes in pre-order, each paired with its depth (`d` for the node itself). -/
def withDepth (d : Nat) : T → List (T × Nat)
  | .node i ks => (T.node i ks, d) :: withDepthL (d + 1) ks
def withDepthL (d : Nat) : List T → List (T × Nat)
  | [] => []
  | t :: ts => withDepth d t ++ withDepthL d ts
end

/-! ### visit -/

mutual
/-- Cut away everything below a node at which the callback answers "skip". -/
def prune (cb : T → Sig) : T → T
  | .node i ks => if cb (.node i ks) = .skip then .node i [] else .node i (pruneL cb ks)
def pruneL (cb : T → Sig) : List T → List T
  | [] => []
  | t :: ts => prune cb t :: pruneL cb ts
end

def Sig.halts : Sig → Bool
  | .cont => false
  | .skip => false
  | _ => true

/-- The prefix of `xs` up to and including the first element satisfying `p`. -/
def takeThrough {α} (p : α → Bool) : List α → List α
  | [] => []
  | x :: xs => if p x then [x] else x :: takeThrough p xs

/-- The callback with every halting answer replaced by "continue". -/
def noHalt (cb : T → Sig) (t : T) : Sig := if (cb t).halts then .cont else cb t

/-- The callback with skip replaced by "continue" (post-order ignores skip). -/
def noSkip (cb : T → Sig) (t : T) : Sig := if cb t = .skip then .cont else cb t

/-- Outcome carried by the first halting answer, if any. -/
def firstHalt (f : NodeId → Sig) : List NodeId → VOut
  | [] => .ret none
  | x :: xs => match f x with
    | .stop v => .ret v
    | .valueError => .valueError
    | .otherError => .otherError
    | _ => firstHalt f xs

/-- Specification of `visit` for a callback that is a function `f` of the node (identity):
ids of the nodes the callback is called on, and the outcome. -/
def specVisit (f : NodeId → Sig) (m : Method) (addSelf : Bool) (t : T) : List NodeId × VOut :=
  let cb : T → Sig := fun n => f n.id
  let below : Option (List T) :=
    match m with
    | .pre => some (flatL (pruneL (noHalt cb) t.kids))
    | .level => some (specLevel false false (pruneL (noHalt cb) t.kids))
    | .post => some (postL t.kids)
    | _ => none
  match below with
  | none => ([], .notImplemented)
  | some xs =>
    let ids := xs.map T.id
    let all :=
      if !addSelf then ids
      else if m == .post then ids ++ [t.id]
      else if f t.id = .skip then [t.id] else t.id :: ids
    let calls := takeThrough (fun i => (f i).halts) all
    (calls, firstHalt f calls)

end Nutree
