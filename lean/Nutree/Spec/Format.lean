/-
  Nutree.Spec.Format — what `format()` is documented to print (ug_pretty_print.rst):
  one line per node in pre-order; the prefix of a node consists of one segment per ancestor
  below the stripped levels (`s0` "    " if that ancestor is a last sibling, `s1` " |  " otherwise)
  followed by the node's own connector (`s2` last / `s3` not last; in 6-segment styles `s4`/`s5`
  when the node has children).  Stated through paths; independent of parent links.
-/
import Nutree.Model.Format
import Nutree.Spec.Rel
namespace Nutree
open T
namespace Fmt.Spec

/-- is the node at path `p` the last child of its parent? -/
def lastAt (root : T) (p : List Nat) : Bool := SpecRel.isLast root p

/-- all non-empty prefixes of a path, shortest first. -/
def prefixes (p : List Nat) : List (List Nat) := (List.range p.length).map fun k => p.take (k + 1)

/-- prefix segments of the node at path `p` (non-empty), given that the first `lstrip` levels are stripped. -/
def prefixParts (root : T) (segs : String × String × String × String × String × String)
    (lstrip : Nat) (p : List Nat) (n : T) : List String :=
  let (s0, s1, s2, s3, s4, s5) := segs
  let anc := (prefixes p.dropLast).drop lstrip          -- ancestors deeper than the strip level
  let parts := anc.map fun q => if lastAt root q then s0 else s1
  let own :=
    if p.length - 1 ≥ lstrip then
      [if n.kids.isEmpty then (if lastAt root p then s2 else s3) else (if lastAt root p then s4 else s5)]
    else []
  parts ++ own

/-- pre-order of the nodes below `start` (at path `sp`) with their paths. -/
def belowWithPaths : T → List Nat → List (List Nat × T)
  | .node _ ks, sp => go ks sp 0
where
  go : List T → List Nat → Nat → List (List Nat × T)
    | [], _, _ => []
    | .node i ks :: rest, sp, k => (sp ++ [k], T.node i ks) :: (go ks (sp ++ [k]) 0 ++ go rest sp (k + 1))

/-- lines of `Node.format_iter` for the node `start` at path `sp` (`[]` = system root). -/
def lines (root start : T) (sp : List Nat) (render : T → String) (segs : List String) (addSelf : Bool) : Option (List String) :=
  match Fmt.unpack segs with
  | none => if ((if addSelf && sp != [] then [start] else []) ++ flatL start.kids).isEmpty then some [] else none
  | some s6 =>
    let lstrip := sp.length + (if addSelf then 0 else 1)
    let self := if addSelf && sp != [] then [(sp, start)] else []
    some ((self ++ belowWithPaths start sp).map fun (p, n) => String.join (prefixParts root s6 lstrip p n) ++ render n)

end Fmt.Spec
end Nutree
