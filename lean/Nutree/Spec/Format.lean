/-
  Nutree.Spec.Format — what `format()` is documented to print (ug_pretty_print.rst):
  one line per node in pre-order; the prefix of a node consists of one segment per ancestor
  below the stripped levels (`s0` "    " if that ancestor is a last sibling, `s1` " |  " otherwise)
  followed by the node's own connector (`s2` last / `s3` not last; in 6-segment styles `s4`/`s5`
  when the node has children).  Stated through paths; independent of parent links.
-/
import Nutree.Model.Format
import Nutree.Spec.Rel
namespace Nutree
open T
namespace Fmt.Spec

/-- is the node at path `p` the last child of its parent? -/
def lastAt (root : T) (p : List Nat) : Bool := SpecRel.isLast root p

/-- all non-empty prefixes of a path, shortest first. -/
def prefixes (p : List Nat) : List (List Nat) := (List.range p.length).map fun k => p.take (k + 1)

/-- prefix segments of the node at path `p` (non-empty), given that the first `lstrip` levels are stripped. -/
def prefixParts (root : T) (segs : String × String × String × String × String × String)
    (lstrip : Nat) (p : List Nat) (n : T) : List String :=
  let (s0, s1, s2, s3, s4, s5) := segs
  let anc := (prefixes p.dropLast).drop lstrip          -- ancestors deeper than the strip level
  let parts := anc.map fun q => if lastAt root q then s0 else s1
  let own :=
    if p.length - 1 ≥ lstrip then
      [if n.kids.isEmpty then (if lastAt root p then s2 else s3) else (if lastAt root p then s4 else s5)]
    else []
  parts ++ own

/-- pre-order of the nodes below `start` (at path `sp`) with their paths. -/
def belowWithPaths : T → List Nat → List (List Nat × T)
  | .node _ ks, sp => go ks sp 0
where
  go : List T → List Nat → Nat → List (List Nat × T)
    | [], _, _ => []
    | .node i ks :: rest, sp, k => (sp ++ [k], T.node i ks) :: (go ks (sp ++ [k]) 0 ++ go rest sp (k + 1))

/-- lines of `Node.format_iter` for the node `start` at path `sp` (`[]` = system root). -/
def lines (root start : T) (sp : List Nat) (render : T → String) (segs : List String) (addSelf : Bool) : Option (List String) :=
  match Fmt.unpack segs with
  | none => if ((if addSelf && sp != [] then [start] else []) ++ flatL start.kids).isEmpty then some [] else none
  | some s6 =>
    let lstrip := sp.length + (if addSelf then 0 else 1)
    let self := if addSelf && sp != [] then [(sp, start)] else []
    some ((self ++ belowWithPaths start sp).map fun (p, n) => String.join (prefixParts root s6 lstrip p n) ++ render n)


/-! ### additions for C16: uniform widths, shapes, decoding of prefixes -/

abbrev Segs6 := String × String × String × String × String × String

/-- the two ancestor segments have the same non-zero width, and all own connectors have the same width. -/
def UniformWidths (s : Segs6) : Prop :=
  s.1.length = s.2.1.length ∧ 0 < s.1.length ∧ s.2.2.1.length = s.2.2.2.1.length ∧
    s.2.2.2.2.1.length = s.2.2.1.length ∧ s.2.2.2.2.2.length = s.2.2.1.length

instance (s : Segs6) : Decidable (UniformWidths s) := by unfold UniformWidths; infer_instance

/-- the shape of a tree: all data erased. -/
inductive Shape where
  | node (kids : List Shape)
deriving Repr, Inhabited

mutual
/-- erase the data of a tree. -/
def shapeOf : T → Shape
  | .node _ ks => .node (shapeOfL ks)
def shapeOfL : List T → List Shape
  | [] => []
  | t :: ts => shapeOf t :: shapeOfL ts
end

/-- 0-based depth (relative to the first level that carries a connector) of a line, from the
length of its prefix: `prefixLen = depth * width(s0) + width(s2)`. -/
def decodeDepth (s6 : Segs6) (prefixLen : Nat) : Nat := (prefixLen - s6.2.2.1.length) / s6.1.length

/-- variant for `add_self=False`, where the first printed level has an *empty* prefix and the
second level has a bare connector: depth 0 iff the prefix is empty. -/
def decodeDepth0 (s6 : Segs6) (prefixLen : Nat) : Nat :=
  if prefixLen = 0 then 0 else decodeDepth s6 prefixLen + 1

/-- parse a forest of level `d` from a pre-order depth list: an entry `≥ d` starts a node, whose
children are parsed at level `d + 1` from what follows; an entry `< d` ends the forest.
Returns the forest and the unconsumed rest.  `fuel ≥ length` suffices. -/
def parseForest : Nat → Nat → List Nat → List Shape × List Nat
  | 0, _, ds => ([], ds)
  | _ + 1, _, [] => ([], [])
  | fuel + 1, d, x :: ds =>
    if d ≤ x then
      let r1 := parseForest fuel (d + 1) ds
      let r2 := parseForest fuel d r1.2
      (Shape.node r1.1 :: r2.1, r2.2)
    else ([], x :: ds)

/-- rebuild a forest from its pre-order depth list (depth 0 = top level). -/
def shapeOfDepths (ds : List Nat) : List Shape := (parseForest ds.length 0 ds).1

/-- decode an ancestor segment: is that ancestor a last sibling? (needs `s0 ≠ s1`) -/
def decodeAnc (s6 : Segs6) (seg : String) : Bool := seg == s6.1

/-- decode the own connector into (is-last, has-children)
(needs `s2, s3, s4, s5` pairwise distinct: the compact 6-segment styles). -/
def decodeOwn (s6 : Segs6) (own : String) : Bool × Bool :=
  (own == s6.2.2.1 || own == s6.2.2.2.2.1, own == s6.2.2.2.2.1 || own == s6.2.2.2.2.2)

/-- decode the own connector into is-last (needs `{s2, s4}` disjoint from `{s3, s5}`;
for 4-segment styles: `s2 ≠ s3`). -/
def decodeOwnLast (s6 : Segs6) (own : String) : Bool := own == s6.2.2.1 || own == s6.2.2.2.2.1

end Fmt.Spec
end Nutree
