/-
  Nutree.Model.Lock — the tree lock protocol (C18).

  Threads run programs over `acq | rel | read | write`.  The lock is `(owner?, count)`:
  `acq` by a non-owner is enabled only while the lock is free; by the owner always when the
  lock is re-entrant (`threading.RLock`), never when it is a plain `Lock`.  Writers are
  `[acq, write*, rel]` (they mutate only inside `with tree:`); the snapshot operations are
  the programs regenerated from the source text (`Generated/Locks.lean`), with self-calls
  inlined.
-/
import Nutree.Generated.Locks
namespace Nutree
namespace Lock

inductive Ev where
  | acq | rel | read | write
deriving DecidableEq, Repr, Inhabited

abbrev Prog := List Ev
abbrev Tid := Nat

/-- inline the calls of other snapshot methods (`fuel` bounds the nesting; the only
recursion in the source is `save(path)` calling `save(stream)` once). -/
def inline (progs : List (String × List Generated.LEv)) : Nat → List Generated.LEv → Prog
  | 0, p => p.flatMap fun e => match e with
    | .acq => [.acq] | .rel => [.rel] | .read _ => [.read] | .call _ => []
  | fuel + 1, p => p.flatMap fun e => match e with
    | .acq => [.acq] | .rel => [.rel] | .read _ => [.read]
    | .call m => match progs[m]? with
      | some q => inline progs fuel q.2
      | none => [.read]

/-- every `read`/`write` happens at lock depth ≥ 1, `rel` only at depth ≥ 1, and the program
ends at depth 0 (well bracketed). -/
def guardedFrom : Nat → Prog → Bool
  | d, [] => d == 0
  | d, .acq :: r => guardedFrom (d + 1) r
  | d, .rel :: r => d > 0 && guardedFrom (d - 1) r
  | d, .read :: r => d > 0 && guardedFrom d r
  | d, .write :: r => d > 0 && guardedFrom d r

def Guarded (p : Prog) : Prop := guardedFrom 0 p = true

/-- the snapshot programs of the source, inlined. -/
def snapshotProgs : List (String × Prog) :=
  Generated.snapshotPrograms.map fun (n, p) => (n, inline Generated.snapshotPrograms 3 p)

/-- `with tree:` … snapshot call … : the nested use by the owning thread. -/
def nested (p : Prog) : Prog := [.acq] ++ p ++ [.rel]

/-- a writer: mutates only inside `with tree:`. -/
def writer (n : Nat) : Prog := [.acq] ++ List.replicate n .write ++ [.rel]

structure Cfg where
  owner : Option Tid := none
  count : Nat := 0
  progs : List Prog            -- remaining program of thread i
  depth : List Nat             -- lock depth of thread i
  trace : List (Tid × Ev × Option Tid) := []   -- executed events with the lock owner at that moment (newest first)
deriving Repr

def Cfg.init (ps : List Prog) : Cfg := { progs := ps, depth := ps.map fun _ => 0 }

/-- is the next event of thread `i` enabled? -/
def enabled (reentrant : Bool) (c : Cfg) (i : Tid) : Bool :=
  match c.progs[i]? with
  | some (.acq :: _) => c.owner.isNone || (reentrant && c.owner == some i)
  | some (.rel :: _) => c.owner == some i && c.count > 0
  | some (_ :: _) => true
  | _ => false

/-- thread `i` executes its next event (no effect when not enabled). -/
def step (reentrant : Bool) (c : Cfg) (i : Tid) : Cfg :=
  if !enabled reentrant c i then c else
  match c.progs[i]? with
  | some (e :: rest) =>
    let c1 := { c with progs := c.progs.set i rest, trace := (i, e, c.owner) :: c.trace }
    match e with
    | .acq => { c1 with owner := some i, count := c.count + 1, depth := c.depth.set i ((c.depth[i]?.getD 0) + 1) }
    | .rel =>
      let cnt := c.count - 1
      { c1 with owner := if cnt == 0 then none else some i, count := cnt, depth := c.depth.set i ((c.depth[i]?.getD 0) - 1) }
    | _ => c1
  | _ => c

/-- run a schedule (a list of thread choices; choices of blocked/finished threads are no-ops). -/
def run (reentrant : Bool) (c : Cfg) (sched : List Tid) : Cfg := sched.foldl (step reentrant) c

def finished (c : Cfg) : Bool := c.progs.all List.isEmpty

end Lock
end Nutree
