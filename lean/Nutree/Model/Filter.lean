/-
  Nutree.Model.Filter — operational model of `call_predicate`, `Node.filter` (in place) and
  `Node._add_filtered` (the copying form behind `filtered()` / `copy(predicate=)`),
  plus the declarative specification of "what filtering keeps" (C08).
-/
import Nutree.Model.Ops
namespace Nutree
open T
namespace Flt

/-- what a predicate may answer (every spelling accepted by `call_predicate` + the tests in
`filter` / `_add_filtered`). -/
inductive RawP where
  | retTrue | retFalse | retNone
  | retSkipInst | retSkipSelfInst        -- SkipBranch() / SkipBranch(and_self=False)
  | retSelectInst | retStopInst
  | retSkipCls | retSelectCls | retStopCls   -- the *class* returned
  | raiseSkip | raiseSkipSelf | raiseSelect | raiseStop | raiseStopIter
  | retOther                               -- some other truthy value (1, a match object …)
  | raiseOther                             -- the predicate raises an unrelated exception
deriving DecidableEq, Repr, Inhabited

inductive Verdict where
  | accept | reject | skip | skipKeepSelf | select | stop
  | other        -- matches no branch of the `if` chains
  | error        -- the predicate's own exception escapes
deriving DecidableEq, Repr, Inhabited

/-- `common.call_predicate` followed by the classification that `filter`/`_add_filtered` apply:
raised controls are returned as instances, `StopIteration` becomes `StopTraversal`, a returned
`IterationControl` *class* is instantiated. -/
def callPredicate : RawP → Verdict
  | .retTrue => .accept
  | .retFalse => .reject
  | .retNone => .reject
  | .retSkipInst => .skip
  | .retSkipSelfInst => .skipKeepSelf
  | .retSelectInst => .select
  | .retStopInst => .stop
  | .retSkipCls => .skip
  | .retSelectCls => .select
  | .retStopCls => .stop
  | .raiseSkip => .skip
  | .raiseSkipSelf => .skipKeepSelf
  | .raiseSelect => .select
  | .raiseStop => .stop
  | .raiseStopIter => .stop
  | .retOther => .other
  | .raiseOther => .error

/-! ### in-place `filter` -/

/-- result of one `_visit(parent)` frame: the `remove()` calls made so far (in call order),
`must_keep`, whether the scan has been stopped, whether the predicate's exception escaped. -/
structure FV where
  removed : List NodeId := []
  mustKeep : Bool := false
  stopped : Bool := false
  failed : Bool := false
deriving Repr, Inhabited

mutual
/-- the `for n in parent.children` loop of `filter._visit`; `acc` = the `remove_nodes` of this
frame, `rm` = removals already executed by deeper frames. -/
def visitL (v : T → Verdict) : List T → (stopped : Bool) → (acc : List NodeId) → (rm : List NodeId) → (keep : Bool) → FV
  | [], stopped, acc, rm, keep => { removed := rm ++ acc, mustKeep := keep, stopped := stopped }
  | n :: ns, stopped, acc, rm, keep =>
    if stopped then visitL v ns true (acc ++ [n.id]) rm keep       -- not scanned any more: not accepted
    else match v n with
      | .reject =>
        let r := visitT v n
        if r.failed then { removed := rm ++ r.removed, failed := true }
        else if r.mustKeep then visitL v ns r.stopped acc (rm ++ r.removed) true
        else visitL v ns r.stopped (acc ++ [n.id]) (rm ++ r.removed) keep
      | .accept =>
        let r := visitT v n
        if r.failed then { removed := rm ++ r.removed, failed := true }
        else visitL v ns r.stopped acc (rm ++ r.removed) true
      | .select => visitL v ns false acc rm true
      | .skipKeepSelf => visitL v ns false (acc ++ n.kids.map T.id) rm true
      | .skip => visitL v ns false (acc ++ [n.id]) rm keep
      | .stop => visitL v ns true (acc ++ [n.id]) rm keep
      | .other => visitL v ns false acc rm keep
      | .error => { removed := rm, failed := true }
/-- `_visit(n)` for the children of `n`. -/
def visitT (v : T → Verdict) : T → FV
  | .node _ ks => visitL v ks false [] [] false
end

/-- `Node.filter(predicate)` on the node with identity `start`. -/
def filterInPlace (t : Tree) (start : NodeId) (v : T → Verdict) : Tree × Option Err :=
  match findT start t.root with
  | none => (t, some .other)
  | some x =>
    let r := visitT v x
    (r.removed.foldl (fun t n => t.removeOne n) t, if r.failed then some .callback else none)

/-! ### the copying form `_add_filtered` -/

/-- state of the copy: target tree, fresh counter, and the `parent_stack` whose entries are
`(existing?, node)`: an id of the target tree when existing, else a source node. -/
inductive SE where
  | existing (id : NodeId)
  | virtual (src : T)
deriving Inhabited

structure CS where
  t : Tree
  next : NodeId
  err : Option Err := none
  stopped : Bool := false
deriving Inhabited

/-- `_create_parents()`: materialise all virtual entries (each `p = p.add(n)`), return the
state, the updated stack and the id of the last one. -/
def createParents (cs : CS) : List SE → (p : NodeId) → (done : List SE) → CS × List SE × NodeId
  | [], p, done => (cs, done, p)
  | .existing i :: rest, _, done => createParents cs rest i (done ++ [.existing i])
  | .virtual n :: rest, p, done =>
    if cs.err.isSome then (cs, done ++ (.virtual n :: rest), p)
    else
      let (t1, n1, e) := cs.t.addNode cs.next p n false none .none none none none
      match e with
      | some e => ({ cs with t := t1, next := n1, err := some e }, done ++ (.virtual n :: rest), p)
      | none => createParents { cs with t := t1, next := n1 } rest cs.next (done ++ [.existing cs.next])

mutual
/-- the loop of `_add_filtered._visit(other)` over `other.children`; `stack` is `parent_stack`. -/
def addFilteredL (v : T → Verdict) : List T → CS → List SE → CS × List SE
  | [], cs, stack => (cs, stack)
  | n :: ns, cs, stack =>
    if cs.err.isSome || cs.stopped then (cs, stack)
    else
      let stack1 := stack ++ [.virtual n]
      let (cs2, stack2) : CS × List SE :=
        match v n with
        | .skip => (cs, stack1)
        | .skipKeepSelf =>
          let (c, s, p) := createParents cs stack1 0 []
          if c.err.isSome then (c, s)
          else
            let (t1, n1, e) := c.t.addNode c.next p n false none .none none none none    -- `p.add_child(n)`
            ({ c with t := t1, next := n1, err := e }, s)
        | .stop => ({ cs with stopped := true }, stack1)
        | .select =>
          let (c, s, p) := createParents cs stack1 0 []
          if c.err.isSome then (c, s)
          else
            let (t1, n1, e) := Tree.addFromL c.t c.next p n.kids                            -- `p._add_from(n)`
            ({ c with t := t1, next := n1, err := e }, s)
        | .reject => addFilteredT v n cs stack1
        | .accept =>
          let (c, s, p) := createParents cs stack1 0 []
          if c.err.isSome then (c, s)
          else
            let (t1, n1, e) := c.t.addNode c.next p n false none .none none none none    -- `p.add_child(n)`
            if e.isSome then ({ c with t := t1, next := n1, err := e }, s)
            else addFilteredT v n { c with t := t1, next := n1 } s
        | .other => (cs, stack1)
        | .error => ({ cs with err := some .callback }, stack1)
      addFilteredL v ns cs2 stack2.dropLast                                              -- `parent_stack.pop()`
def addFilteredT (v : T → Verdict) : T → CS → List SE → CS × List SE
  | .node _ ks, cs, stack => addFilteredL v ks cs stack
end

/-- `target._add_from(other, predicate=…)` where `target` (id `tid`) lives in tree `t`. -/
def addFiltered (t : Tree) (next : NodeId) (tid : NodeId) (other : T) (v : T → Verdict) : Tree × NodeId × Option Err :=
  let r := addFilteredT v other { t := t, next := next } [.existing tid]
  (r.1.t, r.1.next, r.1.err)

/-- `Tree.filtered(pred)` / `Tree.copy(predicate=pred)`: new tree, root `_add_from(root, predicate)`. -/
def treeFiltered (src : Tree) (next : NodeId) (v : T → Verdict) : Tree × NodeId × Option Err :=
  addFiltered { typed := src.typed } next 0 src.root v

/-- `Node.filtered(pred)` = `copy(add_self=True, predicate=pred)`: the node itself is copied
unconditionally, then its branch filtered below the copy. -/
def nodeFiltered (src : Tree) (next : NodeId) (n : T) (v : T → Verdict) : Tree × NodeId × Option Err :=
  let new : Tree := { typed := src.typed }
  let (t1, n1, e) := new.addNode next 0 n false none .none none none none
  match e with
  | some e => (t1, n1, some e)
  | none => addFiltered t1 n1 next n v

/-! ### Specification: what filtering keeps -/
namespace Spec

mutual
/-- nodes on which the predicate is consulted, in scan order, if nothing stops the scan:
pre-order, not descending below skip / skip-keep-self / select / stop / unrecognised answers. -/
def scanT (v : T → Verdict) : T → List T
  | .node i ks =>
    T.node i ks :: (match v (.node i ks) with
      | .accept => scanL v ks
      | .reject => scanL v ks
      | _ => [])
def scanL (v : T → Verdict) : List T → List T
  | [] => []
  | t :: ts => scanT v t ++ scanL v ts
end

/-- the nodes actually scanned: up to (excluding) the first stop. -/
def scanned (v : T → Verdict) (ks : List T) : List T := (scanL v ks).takeWhile fun n => v n != .stop

/-- verdicts as they count: anything not scanned is "not accepted". -/
def effective (v : T → Verdict) (ks : List T) (n : T) : Verdict :=
  if (scanned v ks).any (fun m => m.id == n.id) then v n else .reject

mutual
/-- restriction of a branch to what is kept, for verdicts `w` (already made effective):
accepted nodes, their ancestors, the whole branch below a select, the node alone for
skip-keep-self, nothing below a skip. -/
def keepT (w : T → Verdict) : T → Option T
  | .node i ks =>
    match w (.node i ks) with
    | .accept => some (.node i (keepL w ks))
    | .select => some (.node i ks)
    | .skipKeepSelf => some (.node i [])
    | .skip => none
    | _ => match keepL w ks with
      | [] => none
      | ks' => some (.node i ks')
def keepL (w : T → Verdict) : List T → List T
  | [] => []
  | t :: ts => match keepT w t with
    | some t' => t' :: keepL w ts
    | none => keepL w ts
end

/-- `filterSpec`: the children of the filtered node after filtering. -/
def filterSpec (v : T → Verdict) (ks : List T) : List T := keepL (effective v ks) ks

/-- shape + payload of a forest without node identities (copies have fresh identities). -/
inductive Sh where
  | node (data : Nat) (did : DataId) (kind : Option String) (kids : List Sh)
deriving Repr, Inhabited

mutual
def shT : T → Sh
  | .node i ks => .node i.data.obj i.did i.kind (shL ks)
def shL : List T → List Sh
  | [] => []
  | t :: ts => shT t :: shL ts
end

mutual
/-- remove the duplicate that `_add_filtered` creates (known finding, DESIGN.md D11): an
accepted node (`True` / `SkipBranch(and_self=False)`) gets a leaf copy of itself as first child. -/
def stripDupT (w : T → Verdict) : T → T → T        -- source node, copy node
  | .node si sks, .node ci cks =>
    match w (.node si sks) with
    | .accept => .node ci (stripDupL w sks (cks.drop 1))
    | .skipKeepSelf => .node ci (cks.drop 1)
    | .select => .node ci cks
    | _ => .node ci (stripDupL w sks cks)
/-- walk the kept source children and the copy's children in parallel. -/
def stripDupL (w : T → Verdict) : List T → List T → List T
  | [], cs => cs
  | _, [] => []
  | s :: ss, c :: cs =>
    match keepT w s with
    | some _ => stripDupT w s c :: stripDupL w ss cs
    | none => stripDupL w ss (c :: cs)
end

end Spec
end Flt
end Nutree
