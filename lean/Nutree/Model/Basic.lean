/-
  Nutree.Model.Basic — core types of the executable model of mar10/nutree.

  Core Lean only (no Mathlib): this file is linked into the `nutree_driver` executable.

  A tree is a *value*: `T.node info kids`.  A node object of the Python implementation
  (`nutree.node.Node`) corresponds to one `T.node`; its identity (`id(node)` / `node_id`)
  is `info.id`.  `_children` is `kids`.  `_parent` and `_tree` are *derived* (the enclosing
  node / the tree whose forest contains the node); that the implementation's stored
  `_parent` / `_tree` links agree with the derived ones is checked on every run by the
  correspondence (the observation contains `node.parent` and `node.tree` as read through
  the public API), see DESIGN.md §2.2.
-/
namespace Nutree

abbrev NodeId := Nat

/-- A `data_id`: Python `int` or `str`.  Hash values of pool objects are canonicalised by
the harness to `int` values (see harness/pool.py). -/
inductive DataId where
  | int (i : Int)
  | str (s : String)
deriving DecidableEq, Repr, Inhabited, Hashable

/-- Python truthiness of a data_id (`if data_id:`). -/
def DataId.truthy : DataId → Bool
  | .int i => i != 0
  | .str s => s != ""

/-- One data object of the harness pool; the four notions the code distinguishes
(`is`, `==`, `hash`, truthiness) are separate attributes, measured on the real objects. -/
structure Atom where
  obj : Nat            -- object identity (Python `is`)
  eqc : Nat            -- class of `==`
  hid : DataId         -- hash(data), canonicalised
  truthy : Bool        -- bool(data)
  isStr : Bool         -- isinstance(data, str)
  name : String        -- str(data)
deriving DecidableEq, Repr, Inhabited

/-- Python `a == b` on data objects. -/
def Atom.pyEq (a b : Atom) : Bool := a.obj == b.obj || a.eqc == b.eqc

structure Info where
  id : NodeId
  data : Atom
  did : DataId
  kind : Option String := none
  nmeta : Option (List (String × String)) := none
deriving DecidableEq, Repr, Inhabited

inductive T where
  | node (info : Info) (kids : List T)
deriving Repr, Inhabited

namespace T

def info : T → Info
  | .node i _ => i

def kids : T → List T
  | .node _ ks => ks

abbrev id (t : T) : NodeId := t.info.id
abbrev did (t : T) : DataId := t.info.did
abbrev data (t : T) : Atom := t.info.data
abbrev kind (t : T) : Option String := t.info.kind
abbrev name (t : T) : String := t.info.data.name

@[simp] theorem info_node (i : Info) (ks : List T) : (T.node i ks).info = i := rfl
@[simp] theorem kids_node (i : Info) (ks : List T) : (T.node i ks).kids = ks := rfl
@[simp] theorem eta (t : T) : T.node t.info t.kids = t := by cases t; rfl

mutual
def decEq : (a b : T) → Decidable (a = b)
  | .node i ks, .node j ls =>
    if h : i = j then
      match decEqL ks ls with
      | isTrue h2 => isTrue (by rw [h, h2])
      | isFalse h2 => isFalse (by intro e; injection e with _ e2; exact h2 e2)
    else isFalse (by intro e; injection e with e1 _; exact h e1)
def decEqL : (a b : List T) → Decidable (a = b)
  | [], [] => isTrue rfl
  | [], _ :: _ => isFalse (by intro e; cases e)
  | _ :: _, [] => isFalse (by intro e; cases e)
  | a :: as, b :: bs =>
    match decEq a b, decEqL as bs with
    | isTrue h1, isTrue h2 => isTrue (by rw [h1, h2])
    | isFalse h1, _ => isFalse (by intro e; injection e with e1 _; exact h1 e1)
    | _, isFalse h2 => isFalse (by intro e; injection e with _ e2; exact h2 e2)
end

instance : DecidableEq T := decEq

mutual
/-- Number of nodes of the subtree (self included). -/
def size : T → Nat
  | .node _ ks => 1 + sizeL ks
def sizeL : List T → Nat
  | [] => 0
  | t :: ts => size t + sizeL ts
end

mutual
/-- Structural height: 0 for a leaf, else 1 + the maximum over the children. -/
def height : T → Nat
  | .node _ ks => heightL ks
/-- `heightL ks` = 0 for the empty forest, else 1 + max height of the members. -/
def heightL : List T → Nat
  | [] => 0
  | t :: ts => max (height t + 1) (heightL ts)
end

mutual
/-- The subtree's nodes in pre-order, self first. -/
def flat : T → List T
  | .node i ks => T.node i ks :: flatL ks
def flatL : List T → List T
  | [] => []
  | t :: ts => flat t ++ flatL ts
end

/-- All node ids of a forest, pre-order. -/
def idsL (ts : List T) : List NodeId := (flatL ts).map T.id

/-- Resolve a path (child indices from the top) in a forest. -/
def atPath : List T → List Nat → Option T
  | _, [] => none
  | ts, [i] => ts[i]?
  | ts, i :: rest => match ts[i]? with
    | some t => atPath t.kids rest
    | none => none

end T

/-- Error classes the harness maps Python exceptions to. -/
inductive Err where
  | unique | ambiguous | value | assertion | notImplemented | type | key | attribute
  | runtime | index | callback | other
deriving DecidableEq, Repr, Inhabited

def Err.toString : Err → String
  | .unique => "unique" | .ambiguous => "ambiguous" | .value => "value"
  | .assertion => "assertion" | .notImplemented => "notimpl" | .type => "type"
  | .key => "key" | .attribute => "attribute" | .runtime => "runtime" | .index => "index"
  | .callback => "callback" | .other => "other"

end Nutree

namespace Nutree

/-- The data object of the invisible system root (never observable). -/
def rootAtom : Atom := { obj := 1000000, eqc := 1000000, hid := .int 0, truthy := true, isStr := false, name := "__root__" }

/-- `_SystemRootNode`: node_id 0 (`ROOT_NODE_ID`), data_id "__root__" (`ROOT_DATA_ID`). -/
def rootInfo : Info := { id := 0, data := rootAtom, did := .str "__root__" }

/-- The system root with the top-level nodes as children. -/
def mkRoot (tops : List T) : T := .node rootInfo tops

/-- Node at a path below a start node (`[]` = the start node itself). -/
def T.sub : T → List Nat → Option T
  | t, [] => some t
  | t, i :: rest => match t.kids[i]? with
    | some c => c.sub rest
    | none => none

end Nutree
