/-
  Nutree.Model.Format — operational model of pretty-printing
  (node.py `_get_prefix`, `_render_lines`, `format_iter`, `format`; tree.py `format_iter`, `format`).

  The rendering of a node (`repr.format(node=n)` / `repr(n)`) is a parameter `render : T → String`.
  The connector table is the one regenerated from common.py (`Generated.connectors`).
-/
import Nutree.Model.Rel
import Nutree.Generated.Tables
namespace Nutree
open T
namespace Fmt

/-- the `style` argument: `None`, a style name, or a custom list/tuple. -/
inductive StyleArg where
  | default
  | name (s : String)
  | custom (segs : List String)
deriving Repr, DecidableEq, Inhabited

/-- `_get_prefix`: unpack the style into (s0, s1, s2, s3, s4, s5); other lengths → ValueError. -/
def unpack : List String → Option (String × String × String × String × String × String)
  | [s0, s1, s2, s3] => some (s0, s1, s2, s3, s2, s3)
  | [s0, s1, s2, s3, s4, s5] => some (s0, s1, s2, s3, s4, s5)
  | _ => none

/-- `_is_last(p)`: `p is p._parent._children[-1]`. -/
def isLast (root p : T) : Bool := isLastSibling root p

/-- The loop over `self.get_parent_list()` in `_get_prefix`: (parts, depth). -/
def ancestorParts (root : T) (s0 s1 : String) (lstrip : Nat) : List T → Nat → List String × Nat
  | [], depth => ([], depth)
  | p :: ps, depth =>
    let depth := depth + 1
    if depth ≤ lstrip then ancestorParts root s0 s1 lstrip ps depth
    else
      let r := ancestorParts root s0 s1 lstrip ps depth
      ((if isLast root p then s0 else s1) :: r.1, r.2)

/-- `Node._get_prefix(style, lstrip)`; `none` = ValueError (invalid style length). -/
def getPrefix (root self : T) (style : List String) (lstrip : Nat) : Option String :=
  match unpack style with
  | none => none
  | some (s0, s1, s2, s3, s4, s5) =>
    let (parts, depth) := ancestorParts root s0 s1 lstrip (getParentList root self false false) 0
    let own :=
      if depth ≥ lstrip then
        if !self.kids.isEmpty then (if isLast root self then [s4] else [s5])
        else (if isLast root self then [s2] else [s3])
      else []
    some (String.join (parts ++ own))

/-- resolve the style argument (`_render_lines`): a list/tuple is used as is; otherwise
`CONNECTORS[style or DEFAULT_CONNECTOR_STYLE]`, `KeyError` → ValueError (`none`). -/
def resolveStyle : StyleArg → Option (List String)
  | .custom segs => some segs
  | .default => Generated.connectors.lookup Generated.defaultConnectorStyle
  | .name s => Generated.connectors.lookup (if s == "" then Generated.defaultConnectorStyle else s)

/-- `Node._render_lines(repr=, style=, add_self=)`; `none` = ValueError. -/
def renderLines (root self : T) (render : T → String) (style : StyleArg) (addSelf : Bool) : Option (List String) :=
  match resolveStyle style with
  | none => none
  | some segs =>
    let isRoot := self.id == root.id      -- `not self._parent`
    let lstrip := calcDepth root self + (if addSelf then 0 else 1)
    let addSelf := if isRoot then false else addSelf
    let nodes := (if addSelf then [self] else []) ++ iterPre self
    nodes.mapM fun n => (getPrefix root n segs lstrip).map (· ++ render n)

/-- `Node.format_iter(repr=, style=, add_self=)`. -/
def formatIter (root self : T) (render : T → String) (style : StyleArg) (addSelf : Bool) : Option (List String) :=
  if style = StyleArg.name "list" then
    some (((if addSelf then [self] else []) ++ iterPre self).map render)
  else renderLines root self render style addSelf

/-- the `title` argument of `Tree.format`. -/
inductive TitleArg where
  | default            -- None
  | off                -- False
  | on                 -- True: `f"{self}"`
  | text (s : String)  -- a (truthy) string; "" behaves like a falsy non-False value
deriving Repr, DecidableEq, Inhabited

/-- `Tree.format_iter(repr=, style=, title=)`; `treeStr` is `f"{self}"`. -/
def treeFormatIter (root : T) (treeStr : String) (render : T → String) (style : StyleArg) (title : TitleArg) :
    Option (List String) :=
  let title := match title with
    | .default => if style = StyleArg.name "list" then TitleArg.off else TitleArg.on
    | t => t
  let head := match title with
    | .on => [treeStr]
    | .text s => if s == "" then [] else [s]
    | _ => []
  let hasTitle := title != .off
  (formatIter root root render style hasTitle).map (head ++ ·)

/-- `format(join=)`. -/
def joinLines (join : String) (lines : List String) : String := join.intercalate lines

end Fmt
end Nutree
