/-
  Nutree.Model.Diff — operational model of `diff.diff_tree` (`Tree.diff`).

  The result is a forest whose nodes carry the change marks in their metadata:
  `dc` ∈ {ADDED, REMOVED, MOVED_HERE, MOVED_TO, (i0, i1)} and `dc_renumbered`.
  Node identities of the result are assigned in creation order.
-/
import Nutree.Model.Ops
namespace Nutree
open T
namespace Diff

inductive DC where
  | added | removed | movedHere | movedTo
  | order (i0 i1 : Nat)
deriving DecidableEq, Repr, Inhabited

def DC.str : DC → String
  | .added => "ADDED" | .removed => "REMOVED" | .movedHere => "MOVED_HERE" | .movedTo => "MOVED_TO"
  | .order a b => s!"({a}, {b})"

/-- a node of the result: payload of the source node + marks. -/
def mk (id : NodeId) (src : T) (dc : Option DC) (renumbered : Bool) (kids : List T) : T :=
  let m : List (String × String) :=
    (match dc with | some d => [("dc", d.str)] | none => []) ++ (if renumbered then [("dc_renumbered", "true")] else [])
  .node { id := id, data := src.data, did := src.did, kind := none, nmeta := if m.isEmpty then none else some m } kids

/-- `_find_child(arr, child)`: first element that is `==` (compares the data objects). -/
def findChild (arr : List T) (c : T) : Option (Nat × T) :=
  let i := arr.findIdx fun x => x.data.pyEq c.data
  match arr[i]? with
  | some x => some (i, x)
  | none => none

mutual
/-- `_copy_children(source, dest, add_set, meta)`: copies of all descendants; only the first
level carries the mark. Returns the copies and the next fresh id. -/
def copyKidsL (mark : Option DC) : List T → NodeId → List T × NodeId
  | [], next => ([], next)
  | .node i ks :: rest, next =>
    let sub := copyKidsL none ks (next + 1)
    let tl := copyKidsL mark rest sub.2
    (mk next (.node i ks) mark false sub.1 :: tl.1, tl.2)
end

mutual
/-- the first loop of `compare(p0, p1, p2)` over `p0.children` (from index `i0` on):
the new children of `p2`, the next fresh id, whether `p2` was flagged `dc_renumbered`. -/
def cmpL (ordered : Bool) (p1kids : List T) : Nat → List T → NodeId → List T × NodeId × Bool
  | _, [], next => ([], next, false)
  | i0, .node ci cks :: rest, next =>
    let c0 := T.node ci cks
    let found := findChild p1kids c0
    let dc : Option DC := match found with
      | some (i1, _) => if i0 == i1 then none else (if ordered then some (.order i0 i1) else none)
      | none => some .removed
    let ren := match found with
      | some (i1, _) => i0 != i1 && ordered
      | none => false
    -- recurse where the code calls compare(c0, c1, c2)
    let sub : List T × NodeId × Bool := match found with
      | some (_, c1) => if cks.isEmpty && c1.kids.isEmpty then ([], next + 1, false) else cmpNode ordered c1.kids cks (next + 1)
      | none => ([], next + 1, false)
    let c2 := mk next c0 dc sub.2.2 sub.1
    let tl := cmpL ordered p1kids (i0 + 1) rest sub.2.1
    (c2 :: tl.1, tl.2.1, ren || tl.2.2)
/-- `compare(c0, c1, c2)`: matched/removed children in `p0` order, then the added ones. -/
def cmpNode (ordered : Bool) (p1kids : List T) : List T → NodeId → List T × NodeId × Bool
  | p0kids, next =>
    let a := cmpL ordered p1kids 0 p0kids next
    let addedSrc := p1kids.filter fun c1 => !(p0kids.any fun c0 => c0.did == c1.did)
    let b := addL addedSrc a.2.1
    (a.1 ++ b.1, b.2, a.2.2)
/-- the second loop: children of `p1` whose data_id does not occur among `p0`'s children. -/
def addL : List T → NodeId → List T × NodeId
  | [], next => ([], next)
  | .node i ks :: rest, next =>
    let sub := copyKidsL (some .added) ks (next + 1)
    let tl := addL rest sub.2
    (mk next (.node i ks) (some .added) false sub.1 :: tl.1, tl.2)
end

def dcOf (n : T) : Option String := (n.info.nmeta.getD []).lookup "dc"

/-- ids created by the second loop and `_copy_children` (`added_nodes`), in creation order:
the nodes marked ADDED and all their descendants. -/
def addedIds (f : List T) : List NodeId :=
  ((flatL f).filter fun n => dcOf n == some "ADDED").flatMap fun n => (flat n).map T.id

def setDc (v : String) (i : Info) : Info :=
  let m := (i.nmeta.getD [])
  { i with nmeta := some (if m.any (·.1 == "dc") then m.map (fun e => if e.1 == "dc" then ("dc", v) else e) else m ++ [("dc", v)]) }

/-- the re-classification loop over `added_nodes` in the given order. -/
def reclassify (order : List NodeId) (f : List T) : List T :=
  order.foldl (fun f nid =>
    match (flatL f).find? (fun n => n.id == nid) with
    | none => f
    | some a =>
      let removedClones := (flatL f).filter fun n => n.id != nid && n.did == a.did && dcOf n == some "REMOVED"
      if removedClones.isEmpty then f
      else
        let f1 := setInfoL nid (setDc "MOVED_HERE") f
        removedClones.foldl (fun g n => setInfoL n.id (setDc "MOVED_TO") g) f1) f

mutual
/-- `reduce=True`: `t2.filter(lambda node: bool(node.get_meta("dc")))`. -/
def reduceT : T → Option T
  | .node i ks =>
    let ks' := reduceL ks
    if ((i.nmeta.getD []).lookup "dc").isSome || !ks'.isEmpty then some (.node i ks') else none
def reduceL : List T → List T
  | [] => []
  | t :: ts => match reduceT t with
    | some t' => t' :: reduceL ts
    | none => reduceL ts
end

/-- `diff_tree(t0, t1, ordered=, reduce=)`; `order?` = iteration order of the `added_nodes`
set (`none`: creation order). -/
def diffTree (ordered reduce : Bool) (t0 t1 : List T) (order? : Option (List NodeId)) : List T :=
  let r := cmpNode ordered t1 t0 1
  let f := reclassify (order?.getD (addedIds r.1)) r.1
  if reduce then reduceL f else f

end Diff
end Nutree
