/-
  Nutree.Model.Search — operational model of the search code
  (node.py `_search`, `find_all`, `find_first`; tree.py `find_all`, `find_first`,
  `__getitem__`, `__contains__`).

  A match (regular expression `fullmatch` on the name, or a user predicate, or data
  identity) is a parameter `m : T → Bool` (tabulated by the harness with the real `re`).
  The data_id index `_nodes_by_data_id` is a parameter `byData` (association list in
  dict order; the clone lists in registration order); its exactness is C02.
-/
import Nutree.Model.Iter
namespace Nutree
open T
namespace Search

/-- the `for node in self.iterator(add_self=add_self)` loop of `_search` with its
`count` and `break`; `k = none` or `some 0` means no limit (`if max_results and …`). -/
def searchLoop (m : T → Bool) (k : Option Nat) : List T → Nat → List T
  | [], _ => []
  | n :: ns, count =>
    if !m n then searchLoop m k ns count
    else
      let count := count + 1
      n :: (match k with
        | some k' => if k' != 0 && count ≥ k' then [] else searchLoop m k ns count
        | none => searchLoop m k ns count)

/-- `Node._search(match, max_results=, add_self=)`. -/
def search (m : T → Bool) (k : Option Nat) (addSelf : Bool) (self : T) : List T :=
  searchLoop m k ((if addSelf then [self] else []) ++ iterPre self) 0

/-- `Node.find_all(match=, add_self=, max_results=)`. -/
def nodeFindAllMatch (m : T → Bool) (k : Option Nat) (addSelf : Bool) (self : T) : List T :=
  search m k addSelf self

/-- `Node.find_all(data)` / `find_all(data_id=)` with a truthy id: the comprehension over
the iterator (no limit is applied on this path). -/
def nodeFindAllId (did : DataId) (addSelf : Bool) (self : T) : List T :=
  ((if addSelf then [self] else []) ++ iterPre self).filter fun n => n.did == did

/-- `Node.find_first(match=)`: `find_all(…, max_results=1)`, `res[0] if res else None`. -/
def nodeFindFirstMatch (m : T → Bool) (self : T) : Option T := (search m (some 1) false self).head?

def nodeFindFirstId (did : DataId) (self : T) : Option T := (nodeFindAllId did false self).head?

abbrev Index := List (DataId × List T)

/-- `Tree.find_all(data_id=, max_results=)` (index path): `res[:max_results] if max_results else res`. -/
def treeFindAllId (byData : Index) (did : DataId) (k : Option Nat) : List T :=
  match byData.lookup did with
  | none => []
  | some res =>
    if res.isEmpty then []
    else match k with
      | some k' => if k' != 0 then res.take k' else res
      | none => res

/-- `Tree.find_first(data_id=)`. -/
def treeFindFirstId (byData : Index) (did : DataId) : Option T :=
  match byData.lookup did with
  | none => none
  | some res => res.head?

/-- keys of `tree[key]`. -/
inductive Key where
  | node                                           -- a Node instance
  | obj (isInt : Bool) (asId : Option DataId) (cid : DataId)
      -- any other object: `isInt` = isinstance(key, int); `asId` = the key itself when it
      -- is an int or str (usable as data_id); `cid` = tree.calc_data_id(key)
deriving Repr, DecidableEq, Inhabited

inductive GetRes where
  | ok (n : T)
  | valueError | keyError | ambiguous
deriving Repr, Inhabited

/-- `Tree.__getitem__`.  `byId` is `_node_by_id` (node_id ↦ node); for an int key the
node_id lookup comes first, then data_id, then data. -/
def getItem (byId : List (Int × T)) (byData : Index) : Key → GetRes
  | .node => .valueError
  | .obj isInt asId cid =>
    let hit : Option T := if isInt then (match asId with | some (.int i) => byId.lookup i | _ => none) else none
    match hit with
    | some n => .ok n
    | none =>
      let res :=
        match asId with
        | some d => if (byData.lookup d).isSome then treeFindAllId byData d none else treeFindAllId byData cid none
        | none => treeFindAllId byData cid none
      match res with
      | [] => .keyError
      | [n] => .ok n
      | _ => .ambiguous

/-- `data in tree`: `bool(self.find_first(data))`. -/
def contains (byData : Index) (cid : DataId) : Bool := (treeFindFirstId byData cid).isSome

/-! ### Specification -/
namespace Spec

/-- all matching of the searched branch in pre-order, cut to the first `k` (`k ≥ 1`). -/
def matching (m : T → Bool) (addSelf : Bool) (self : T) : List T :=
  ((if addSelf then [self] else []) ++ flatL self.kids).filter m

def limit (k : Option Nat) (l : List T) : List T :=
  match k with
  | some (k' + 1) => l.take (k' + 1)
  | _ => l

def findAll (m : T → Bool) (k : Option Nat) (addSelf : Bool) (self : T) : List T := limit k (matching m addSelf self)
def findFirst (m : T → Bool) (self : T) : Option T := (matching m false self).head?

/-- nodes of the whole tree carrying data_id `d`, in index order. -/
def clones (byData : Index) (d : DataId) : List T := (byData.lookup d).getD []

/-- index access: node_id, then data_id, then data; 0 ↦ KeyError, ≥ 2 ↦ ambiguous. -/
def getItem (byId : List (Int × T)) (byData : Index) : Key → GetRes
  | .node => .valueError
  | .obj isInt asId cid =>
    let byNodeId : Option T := match isInt, asId with
      | true, some (.int i) => byId.lookup i
      | _, _ => none
    match byNodeId with
    | some n => .ok n
    | none =>
      let asDataId : List T := match asId with | some d => clones byData d | none => []
      let res := if asDataId.isEmpty then clones byData cid else asDataId
      match res with
      | [] => .keyError
      | [n] => .ok n
      | _ => .ambiguous

end Spec
end Search
end Nutree
