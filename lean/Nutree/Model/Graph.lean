/-
  Nutree.Model.Graph — operational model of the graph exports
  (`nutree/dot.py node_to_dot`, `nutree/mermaid.py _node_to_mermaid_flowchart_iter`,
  `nutree/rdf.py _add_child_node / _add_child_nodes / node_to_rdf / tree_to_rdf`).

  The output is modelled *structurally* (the declared graph nodes and the edges), not as text;
  the harness parses the emitted DOT / Mermaid text (resp. queries the rdflib graph) back into
  the same structure.  The loops are mirrored statement by statement:

  * `for n in node:` is `Node.__iter__` = pre-order over the descendants (`iterPre`);
    `n._parent` is *derived* as the enclosing node (`withParent`), like everywhere in the model;
  * `n._parent is node` is an identity comparison: modelled as equality of the node ids;
  * `used_keys` (a `set`) and `id_to_idx` (a `dict`) are modelled by a list resp. an association
    list (only `in`, `add`, `[]=`, `[]` are used);
  * `if node._parent:` (dot.py) is the flag `hasParent` (false exactly for the system root:
    `Node` defines neither `__bool__` nor `__len__`);
  * `if parent_graph_node is not None:` (rdf.py): the parent term is an `Option`;
  * an `rdflib.Graph` is a set of triples: `Graph.add` is modelled by `graphAdd` (append unless
    present).
-/
import Nutree.Model.Basic
import Nutree.Model.Iter
namespace Nutree
namespace Graph
open T

/-- `_key(n)` / `_id(n)`: `n._data_id if unique_nodes else n._node_id`. -/
inductive Key where
  | did (d : DataId)
  | nid (i : NodeId)
deriving DecidableEq, Repr, Inhabited

def keyOf (unique : Bool) (n : T) : Key := if unique then .did n.did else .nid n.id

mutual
/-- `for n in node:` (pre-order) together with `n._parent`: the pairs (parent, n). -/
def withParentT (p : T) : T → List (T × T)
  | .node i ks => (p, .node i ks) :: withParentL (.node i ks) ks
def withParentL (p : T) : List T → List (T × T)
  | [] => []
  | c :: cs => withParentT p c ++ withParentL p cs
end

/-- the iteration `for n in node` of the edge loops, with the parent link of each `n`. -/
def withParent (node : T) : List (T × T) := withParentL node node.kids

/-! ### DOT (`node_to_dot`) -/

/-- The node-definition loop:
```
for n in node:
    if unique_nodes:
        key = n._data_id
        if key in used_keys: continue
        used_keys.add(key)
    else:
        key = n._node_id
    yield f"{key} [label=n.name]"
``` -/
def dotDeclLoop (unique : Bool) : List Key → List T → List (Key × Option String)
  | _, [] => []
  | used, n :: ns =>
    if unique then
      let key := Key.did n.did
      if used.contains key then dotDeclLoop unique used ns
      else (key, some n.name) :: dotDeclLoop unique (key :: used) ns
    else
      (Key.nid n.id, some n.name) :: dotDeclLoop unique used ns

/-- Declared graph nodes of `node_to_dot`, in order, with their `label` attribute (`none` = no
attribute list).  `treeName` is `node.tree.name`.  With `add_self` the start node is declared
first: with `label=<tree name>` (and `shape="box"`) when it is the system root, with
`label=node.name` otherwise; its key is entered into `used_keys` right away
(`used_keys.add(_key(node))`), so a clone among the descendants is not declared again. -/
def dotNodes (treeName : String) (unique addSelf hasParent : Bool) (node : T) : List (Key × Option String) :=
  (if addSelf then [(keyOf unique node, some (if hasParent then node.name else treeName))] else [])
    ++ dotDeclLoop unique (if addSelf then [keyOf unique node] else []) (iterPre node)

/-- The edge loop:
```
for n in node:
    if not add_self and n._parent is node: continue
    yield f"{_key(n._parent)} -> {_key(n)}{attr_str}"
```
`typed`: the call went through `TypedNode.to_dot`, whose `_edge_mapper` sets `label = n.kind`. -/
def dotEdges (unique addSelf typed : Bool) (node : T) : List (Key × Key × Option String) :=
  (withParent node).filterMap fun (p, n) =>
    if !addSelf && p.id == node.id then none
    else some (keyOf unique p, keyOf unique n, if typed then n.kind else none)

/-! ### Mermaid (`_node_to_mermaid_flowchart_iter`) -/

/-- The node loop:
```
idx = 1
for n in node:
    key = _id(n)
    if key in id_to_idx: continue
    id_to_idx[key] = idx
    yield f'{idx}("{name}")'
    idx += 1
```
Returns the emitted (idx, name) lines and the final `id_to_idx`. -/
def mermaidLoop (unique : Bool) : List (Key × Nat) → Nat → List T → List (Nat × String) × List (Key × Nat)
  | tbl, _, [] => ([], tbl)
  | tbl, idx, n :: ns =>
    let key := keyOf unique n
    if (tbl.lookup key).isSome then mermaidLoop unique tbl idx ns
    else
      let r := mermaidLoop unique (tbl ++ [(key, idx)]) (idx + 1) ns
      ((idx, n.name) :: r.1, r.2)

/-- `id_to_idx` after `if add_root: id_to_idx[_id(node)] = 0`. -/
def mermaidInit (unique addRoot : Bool) (node : T) : List (Key × Nat) :=
  if addRoot then [(keyOf unique node, 0)] else []

/-- The declared nodes `(idx, name)`: `0{{"name"}}` for the start node when `add_root`, then
`idx("name")` for each first occurrence of a key. -/
def mermaidNodes (unique addRoot : Bool) (node : T) : List (Nat × String) :=
  (if addRoot then [(0, node.name)] else [])
    ++ (mermaidLoop unique (mermaidInit unique addRoot node) 1 (iterPre node)).1

/-- the final `id_to_idx`. -/
def mermaidTable (unique addRoot : Bool) (node : T) : List (Key × Nat) :=
  (mermaidLoop unique (mermaidInit unique addRoot node) 1 (iterPre node)).2

/-- `kind = getattr(to_node, "kind", None)`; the typed template is used `if kind` (truthy). -/
def mermaidKind (n : T) : Option String :=
  match n.kind with
  | some k => if k != "" then some k else none
  | none => none

/-- The edge loop over `for n in node` (given with the parent links):
```
for n in node:
    if not add_root and n._parent is node: continue
    parent_idx = id_to_idx[_id(n._parent)]; idx = id_to_idx[_id(n)]
    yield edge_mapper(parent_idx, n._parent, idx, n)
```
`none` = KeyError from `id_to_idx[...]` (shown never to happen in C17). -/
def mermaidEdgeLoop (unique addRoot : Bool) (node : T) (tbl : List (Key × Nat)) :
    List (T × T) → Option (List (Nat × Nat × Option String))
  | [] => some []
  | (p, n) :: rest =>
    if !addRoot && p.id == node.id then mermaidEdgeLoop unique addRoot node tbl rest
    else
      match tbl.lookup (keyOf unique p), tbl.lookup (keyOf unique n) with
      | some pi, some ci => (mermaidEdgeLoop unique addRoot node tbl rest).map ((pi, ci, mermaidKind n) :: ·)
      | _, _ => none

def mermaidEdges (unique addRoot : Bool) (node : T) : Option (List (Nat × Nat × Option String)) :=
  mermaidEdgeLoop unique addRoot node (mermaidTable unique addRoot node) (withParent node)

/-! ### RDF (`node_to_rdf`, `tree_to_rdf`) -/

/-- an rdflib term used as subject: `URIRef(NUTREE_NS.system_root)` or `Literal(data_id)`. -/
inductive Subj where
  | sysRoot
  | lit (d : DataId)
deriving DecidableEq, Repr, Inhabited

inductive Triple where
  | hasChild (p : Subj) (c : DataId)
  | name (s : Subj) (v : String)
  | kind (d : DataId) (k : String)
  | index (d : DataId) (i : Nat)
deriving DecidableEq, Repr, Inhabited

/-- `Graph.add` on a set of triples. -/
def graphAdd (g : List Triple) (t : Triple) : List Triple := if g.contains t then g else g ++ [t]

def graphAddAll (g : List Triple) (ts : List Triple) : List Triple := ts.foldl graphAdd g

/-- The triples `_add_child_node(graph, parent_graph_node, tree_node, index, None)` adds, in
order (`index = none` stands for `-1`):
```
if parent_graph_node is not None: graph.add((parent_graph_node, has_child, graph_node))
if hasattr(tree_node, "kind"): graph.add((graph_node, kind, Literal(tree_node.kind)))
graph.add((graph_node, name, Literal(tree_node.name)))
if index >= 0: graph.add((graph_node, index, Literal(index)))
``` -/
def rdfNodeAdds (parent : Option Subj) (n : T) (index : Option Nat) : List Triple :=
  (match parent with
    | some p => [Triple.hasChild p n.did]
    | none => [])
  ++ (match n.kind with | some k => [Triple.kind n.did k] | none => [])
  ++ [Triple.name (.lit n.did) n.name]
  ++ (match index with | some i => [Triple.index n.did i] | none => [])

mutual
/-- one round of the loop body of `_add_child_nodes` for the child `c` with index `idx`. -/
def rdfChildAdds (parent : Option Subj) (idx : Nat) : T → List Triple
  | .node i ks => rdfNodeAdds parent (.node i ks) (some idx) ++ rdfChildrenAdds (some (.lit i.did)) 0 ks
/-- `_add_child_nodes(graph, graph_node, tree_node)`:
`for index, child in enumerate(children): cgn = _add_child_node(...); _add_child_nodes(graph, cgn, child)`. -/
def rdfChildrenAdds (parent : Option Subj) (idx : Nat) : List T → List Triple
  | [] => []
  | c :: cs => rdfChildAdds parent idx c ++ rdfChildrenAdds parent (idx + 1) cs
end

/-- sequence of `graph.add` calls of `node_to_rdf(node, add_self=)`. -/
def rdfNodeCalls (addSelf : Bool) (node : T) : List Triple :=
  if addSelf then rdfNodeAdds none node none ++ rdfChildrenAdds (some (.lit node.did)) 0 node.kids
  else rdfChildrenAdds none 0 node.kids

/-- sequence of `graph.add` calls of `tree_to_rdf(tree)` (`root` = the system root, `treeName` = `tree.name`). -/
def rdfTreeCalls (treeName : String) (root : T) : List Triple :=
  Triple.name .sysRoot treeName :: rdfChildrenAdds (some .sysRoot) 0 root.kids

/-- The resulting graph (a set, in first-insertion order).  `isTree`: `Tree.to_rdf_graph()`. -/
def rdfTriples (treeName : String) (isTree addSelf : Bool) (node : T) : List Triple :=
  graphAddAll [] (if isTree then rdfTreeCalls treeName node else rdfNodeCalls addSelf node)

end Graph
end Nutree
