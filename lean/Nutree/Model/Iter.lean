/-
  Nutree.Model.Iter — operational model of the traversal code
  (`Node._iter_pre/_iter_post/_iter_level*`, `Node.iterator`, `call_traversal_cb`,
  `Node._visit_pre/_visit_post/_visit_level`, `Node.visit`).

  Generators are modelled by the list of yielded nodes; `while children:` loops by
  recursion on fuel (the fuel is shown to be sufficient in Lemmas/IterLevel.lean).
-/
import Nutree.Model.Basic
namespace Nutree
open T

/-- `IterMethod` (common.py).  The `.value` strings are in `Generated/Tables.lean`. -/
inductive Method where
  | pre | post | level | levelRtl | zigzag | zigzagRtl | random | unordered
deriving DecidableEq, Repr, Inhabited

/-- `IterMethod.<NAME>.value` (common.py); compared with `Generated/Tables.lean` in C06. -/
def Method.value : Method → String
  | .pre => "pre" | .post => "post" | .level => "level" | .levelRtl => "level_rtl"
  | .zigzag => "zigzag" | .zigzagRtl => "zigzag_rtl" | .random => "random"
  | .unordered => "unordered"

mutual
/-- `Node._iter_pre`: `for c in children: yield c; yield from c._iter_pre()`. -/
def iterPre : T → List T
  | .node _ ks => iterPreL ks
def iterPreL : List T → List T
  | [] => []
  | c :: cs => (c :: iterPre c) ++ iterPreL cs
end

mutual
/-- `Node._iter_post`: `for c in self.children: yield from c._iter_post(); yield c`. -/
def iterPost : T → List T
  | .node _ ks => iterPostL ks
def iterPostL : List T → List T
  | [] => []
  | c :: cs => (iterPost c ++ [c]) ++ iterPostL cs
end

/-- `next_level`: `for c in children: if c._children: next_level.extend(c._children)`. -/
def nextLevel (cur : List T) : List T := cur.flatMap T.kids

/-- The `while children:` loop of `Node._iter_level(revert, toggle)`. -/
def iterLevelLoop : Nat → Bool → Bool → List T → List T
  | 0, _, _, _ => []
  | f + 1, revert, toggle, cur =>
    if cur.isEmpty then []
    else
      (if revert then cur.reverse else cur)
        ++ iterLevelLoop f (if toggle then !revert else revert) toggle (nextLevel cur)

/-- `Node._iter_level(revert=, toggle=)` applied to the children `ks` of the start node. -/
def iterLevel (revert toggle : Bool) (ks : List T) : List T :=
  iterLevelLoop (heightL ks) revert toggle ks

/-- The handler `getattr(self, f"_iter_{method.value}")`; `none` = AttributeError →
NotImplementedError (no `_iter_random` / `_iter_unordered` exist on `Node`). -/
def iterHandler (m : Method) (ks : List T) : Option (List T) :=
  match m with
  | .pre => some (iterPreL ks)
  | .post => some (iterPostL ks)
  | .level => some (iterLevel false false ks)
  | .levelRtl => some (iterLevel true false ks)
  | .zigzag => some (iterLevel false true ks)
  | .zigzagRtl => some (iterLevel true true ks)
  | .random => none
  | .unordered => none

/-- `Node.iterator(method, add_self=)`.  `none` = NotImplementedError. -/
def iterator (m : Method) (addSelf : Bool) (t : T) : Option (List T) :=
  match iterHandler m t.kids with
  | none => none
  | some xs =>
    some ((if addSelf && m != .post then [t] else []) ++ xs
          ++ (if addSelf && m == .post then [t] else []))

/-! ### visit -/

/-- What a traversal callback may do (every spelling accepted by `call_traversal_cb`). -/
inductive Raw where
  | retNone
  | retOther                      -- any other return value (`True`, `1`, a string …)
  | retFalse
  | retSkipCls | retSkipInst | raiseSkip
  | retStopCls | retStopInst (v : Option Int) | raiseStop (v : Option Int)
  | retStopIterCls | retStopIterInst (v : Option Int) | raiseStopIter (v : Option Int)
  | raiseOther                    -- the callback raises some unrelated exception
deriving DecidableEq, Repr, Inhabited

/-- Canonical result of `call_traversal_cb`. -/
inductive Sig where
  | cont                          -- returns None
  | skip                          -- returns False
  | stop (v : Option Int)         -- raises StopTraversal(v)
  | valueError                    -- raises ValueError("callback should not return …")
  | otherError                    -- the callback's own exception escapes
deriving DecidableEq, Repr, Inhabited

/-- `common.call_traversal_cb`, branch by branch. -/
def callTraversalCb : Raw → Sig
  | .retNone => .cont
  | .retSkipCls => .skip          -- `res is SkipBranch`
  | .retSkipInst => .skip         -- `isinstance(res, SkipBranch)`
  | .retStopCls => .stop none     -- `raise StopTraversal` (class) → instance with value None
  | .retStopInst v => .stop v     -- `raise res`
  | .retFalse => .stop none       -- `raise StopTraversal`
  | .retStopIterCls => .stop none -- `raise StopIteration` → except StopIteration → StopTraversal(e.value)
  | .retStopIterInst v => .stop v
  | .retOther => .valueError
  | .raiseSkip => .skip           -- `except SkipBranch: return False`
  | .raiseStop v => .stop v       -- not caught here, caught in `visit`
  | .raiseStopIter v => .stop v   -- `except StopIteration as e: raise StopTraversal(e.value)`
  | .raiseOther => .otherError

/-- Why a traversal ended early. -/
inductive Halt where
  | stop (v : Option Int)
  | valueError
  | otherError
deriving DecidableEq, Repr, Inhabited

abbrev VRes := List T × Option Halt     -- nodes the callback was called on, in call order

mutual
/-- `Node._visit_pre`. -/
def visitPre (cb : T → Sig) : T → VRes
  | .node i ks =>
    match cb (.node i ks) with
    | .cont => let r := visitPreL cb ks; (T.node i ks :: r.1, r.2)
    | .skip => ([T.node i ks], none)
    | .stop v => ([T.node i ks], some (.stop v))
    | .valueError => ([T.node i ks], some .valueError)
    | .otherError => ([T.node i ks], some .otherError)
def visitPreL (cb : T → Sig) : List T → VRes
  | [] => ([], none)
  | c :: cs =>
    match visitPre cb c with
    | (vs, some h) => (vs, some h)
    | (vs, none) => let r := visitPreL cb cs; (vs ++ r.1, r.2)
end

/-- Result of the trailing `call_traversal_cb(callback, self, memo)` of post-order
(a skip is ignored there). -/
def sigHalt : Sig → Option Halt
  | .cont => none
  | .skip => none
  | .stop v => some (.stop v)
  | .valueError => some .valueError
  | .otherError => some .otherError

mutual
/-- `Node._visit_post`. -/
def visitPost (cb : T → Sig) : T → VRes
  | .node i ks =>
    match visitPostL cb ks with
    | (vs, some h) => (vs, some h)
    | (vs, none) => (vs ++ [T.node i ks], sigHalt (cb (.node i ks)))
def visitPostL (cb : T → Sig) : List T → VRes
  | [] => ([], none)
  | c :: cs =>
    match visitPost cb c with
    | (vs, some h) => (vs, some h)
    | (vs, none) => let r := visitPostL cb cs; (vs ++ r.1, r.2)
end

/-- One pass of the `for c in children:` loop of `_visit_level`:
(called nodes, next_level, halt). -/
def visitLevelRow (cb : T → Sig) : List T → List T × List T × Option Halt
  | [] => ([], [], none)
  | c :: cs =>
    match cb c with
    | .cont => let r := visitLevelRow cb cs; (c :: r.1, c.kids ++ r.2.1, r.2.2)
    | .skip => let r := visitLevelRow cb cs; (c :: r.1, r.2.1, r.2.2)
    | .stop v => ([c], [], some (.stop v))
    | .valueError => ([c], [], some .valueError)
    | .otherError => ([c], [], some .otherError)

/-- The `while children:` loop of `Node._visit_level`. -/
def visitLevelLoop (cb : T → Sig) : Nat → List T → VRes
  | 0, _ => ([], none)
  | f + 1, cur =>
    if cur.isEmpty then ([], none)
    else
      match visitLevelRow cb cur with
      | (vs, _, some h) => (vs, some h)
      | (vs, nxt, none) => let r := visitLevelLoop cb f nxt; (vs ++ r.1, r.2)

def visitLevel (cb : T → Sig) (ks : List T) : VRes :=
  visitLevelLoop cb (heightL ks) ks

/-- Outcome of `Node.visit`. -/
inductive VOut where
  | ret (v : Option Int)          -- the method returns `v` (None when not stopped)
  | valueError
  | otherError
  | notImplemented
deriving DecidableEq, Repr, Inhabited

def haltOut : Option Halt → VOut
  | none => .ret none
  | some (.stop v) => .ret v      -- `except StopTraversal as e: return e.value`
  | some .valueError => .valueError
  | some .otherError => .otherError

/-- `Node.visit(callback, add_self=, method=)`: nodes the callback was called on, and
the outcome. -/
def visit (cb : T → Sig) (m : Method) (addSelf : Bool) (t : T) : List T × VOut :=
  match m with
  | .level =>
    if addSelf then
      match cb t with
      | .cont => let r := visitLevel cb t.kids; (t :: r.1, haltOut r.2)
      | .skip => ([t], .ret none)
      | s => ([t], haltOut (sigHalt s))
    else let r := visitLevel cb t.kids; (r.1, haltOut r.2)
  | .pre =>
    if addSelf then
      match cb t with
      | .cont => let r := visitPreL cb t.kids; (t :: r.1, haltOut r.2)
      | .skip => ([t], .ret none)
      | s => ([t], haltOut (sigHalt s))
    else let r := visitPreL cb t.kids; (r.1, haltOut r.2)
  | .post =>
    match visitPostL cb t.kids with
    | (vs, some h) => (vs, haltOut (some h))
    | (vs, none) =>
      if addSelf then (vs ++ [t], haltOut (sigHalt (cb t))) else (vs, .ret none)
  | _ => ([], .notImplemented)    -- no `_visit_<m>` handler on the class

end Nutree
