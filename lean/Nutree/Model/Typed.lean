/-
  Nutree.Model.Typed — operational model of the kind-aware queries of `TypedNode`
  (typed_tree.py: get_children, first_child, last_child, has_children, get_siblings,
  first/last/prev/next_sibling, get_index, is_first/is_last_sibling, iter_by_type).

  `kind : Option String`; `none` as an argument means `ANY_KIND`.
  `pc` is `self._parent._children` (obtained as in Model/Rel via `siblingsAll`).
-/
import Nutree.Model.Rel
namespace Nutree
open T
namespace Typed

def hasKind (k : String) (n : T) : Bool := n.kind == some k
def sameKind (self n : T) : Bool := n.kind == self.kind

/-- `get_children(kind)`. -/
def getChildren (self : T) (kind : Option String) : List T :=
  if self.kids.isEmpty then []
  else match kind with
    | none => self.kids
    | some k => self.kids.filter (hasKind k)

/-- `first_child(kind)`: `for n in all_children: if n._kind == kind: return n`. -/
def firstChild (self : T) (kind : Option String) : Option T :=
  if self.kids.isEmpty then none
  else match kind with
    | none => self.kids.head?
    | some k => self.kids.find? (hasKind k)

/-- `last_child(kind)`: the loop runs from the end. -/
def lastChild (self : T) (kind : Option String) : Option T :=
  if self.kids.isEmpty then none
  else match kind with
    | none => self.kids.getLast?
    | some k => self.kids.reverse.find? (hasKind k)

/-- `has_children(kind)`. -/
def hasChildren (self : T) (kind : Option String) : Bool :=
  match kind with
  | none => !self.kids.isEmpty
  | some k => (getChildren self (some k)).length > 0

/-- `get_siblings(add_self=, any_kind=)`. -/
def getSiblings (root self : T) (addSelf anyKind : Bool) : List T :=
  if anyKind then Nutree.getSiblings root self addSelf
  else (siblingsAll root self).filter fun n => (addSelf || n.id != self.id) && sameKind self n

/-- `first_sibling(any_kind=)`; `none` = the AssertionError / IndexError branch. -/
def firstSibling (root self : T) (anyKind : Bool) : Option T :=
  let pc := siblingsAll root self
  if anyKind then pc.head? else pc.find? (sameKind self)

def lastSibling (root self : T) (anyKind : Bool) : Option T :=
  let pc := siblingsAll root self
  if anyKind then pc.getLast? else pc.reverse.find? (sameKind self)

/-- index of `self` in `pc` by identity. -/
def ownIdx (root self : T) : Nat := (siblingsAll root self).findIdx fun n => n.id == self.id

/-- `prev_sibling(any_kind=)`: scan downwards from `own_idx - 1`. -/
def prevSibling (root self : T) (anyKind : Bool) : Option T :=
  let pc := siblingsAll root self
  let i := ownIdx root self
  if i > 0 then (pc.take i).reverse.find? fun n => anyKind || sameKind self n else none

/-- `next_sibling(any_kind=)`: scan upwards from `own_idx + 1`. -/
def nextSibling (root self : T) (anyKind : Bool) : Option T :=
  let pc := siblingsAll root self
  let i := ownIdx root self
  if i + 1 < pc.length then (pc.drop (i + 1)).find? fun n => anyKind || sameKind self n else none

/-- `get_index(any_kind=)`: position (by identity) in `_parent._children`, or in
`_parent.get_children(self.kind)`. -/
def getIndex (root self : T) (anyKind : Bool) : Option Nat :=
  let kc := if anyKind then siblingsAll root self else (siblingsAll root self).filter (sameKind self)
  let i := kc.findIdx fun n => n.id == self.id
  if i < kc.length then some i else none

def isFirstSibling (root self : T) (anyKind : Bool) : Bool :=
  match firstSibling root self anyKind with
  | some f => f.id == self.id
  | none => false

def isLastSibling (root self : T) (anyKind : Bool) : Bool :=
  match lastSibling root self anyKind with
  | some f => f.id == self.id
  | none => false

/-- `TypedTree.iter_by_type(kind)`. -/
def iterByType (root : T) (kind : Option String) : List T :=
  match kind with
  | none => iterPre root
  | some k => (iterPre root).filter (hasKind k)

/-! ### Specification: "filter the full child / sibling list by kind" -/
namespace Spec

/-- the node's full child list filtered by kind (`none` = any kind: no filtering). -/
def byKind (l : List T) (kind : Option String) : List T :=
  match kind with
  | none => l
  | some k => l.filter (hasKind k)

def children (self : T) (kind : Option String) : List T := byKind self.kids kind
def firstChild (self : T) (kind : Option String) : Option T := (byKind self.kids kind).head?
def lastChild (self : T) (kind : Option String) : Option T := (byKind self.kids kind).getLast?
def hasChildren (self : T) (kind : Option String) : Bool := !(byKind self.kids kind).isEmpty

/-- the sibling list (self included) relevant for `self`: all siblings, or those of self's kind. -/
def sibList (pc : List T) (self : T) (anyKind : Bool) : List T :=
  if anyKind then pc else pc.filter (sameKind self)

/-- position of self (by identity) in a list. -/
def pos (l : List T) (self : T) : Option Nat :=
  let i := l.findIdx fun n => n.id == self.id
  if i < l.length then some i else none

def siblings (pc : List T) (self : T) (addSelf anyKind : Bool) : List T :=
  let l := sibList pc self anyKind
  if addSelf then l else l.filter fun n => n.id != self.id

def first (pc : List T) (self : T) (anyKind : Bool) : Option T := (sibList pc self anyKind).head?
def last (pc : List T) (self : T) (anyKind : Bool) : Option T := (sibList pc self anyKind).getLast?
def index (pc : List T) (self : T) (anyKind : Bool) : Option Nat := pos (sibList pc self anyKind) self
def prev (pc : List T) (self : T) (anyKind : Bool) : Option T :=
  match pos (sibList pc self anyKind) self with
  | some (i + 1) => (sibList pc self anyKind)[i]?
  | _ => none
def next (pc : List T) (self : T) (anyKind : Bool) : Option T :=
  match pos (sibList pc self anyKind) self with
  | some i => (sibList pc self anyKind)[i + 1]?
  | none => none
def isFirst (pc : List T) (self : T) (anyKind : Bool) : Bool := pos (sibList pc self anyKind) self == some 0
def isLast (pc : List T) (self : T) (anyKind : Bool) : Bool :=
  match pos (sibList pc self anyKind) self with
  | some i => i + 1 == (sibList pc self anyKind).length
  | none => false
def iterByType (root : T) (kind : Option String) : List T := byKind (flatL root.kids) kind

end Spec
end Typed
end Nutree
