/-
  Nutree.Model.Ops — operational model of the mutating API of `Node` / `Tree`
  (node.py add_child & shortcuts, move_to, remove, remove_children, sort_children,
  set_data, rename, meta edits, _add_from, copy, copy_to; tree.py _register, _unregister,
  add_child, clear, sort, copy, copy_to, __delitem__; typed_tree.py add_child & shortcuts).

  State that the Python keeps by hand and that the model keeps as separate fields which
  every operation has to update with its own statements:
    `byId`   — keys of `Tree._node_by_id` (insertion order)
    `byData` — `Tree._nodes_by_data_id` (dict order; clone lists in registration order)
  The child lists are the tree value `root`; `_parent`/`_tree` are derived (see Basic.lean).

  An operation returns the new state *and* the outcome; a refused operation returns a state
  too — that it is the old one is a theorem (C13), not a type.
-/
import Nutree.Model.Rel
namespace Nutree
open T

/-- the `before` argument. -/
inductive Before where
  | none | bTrue | bFalse
  | idx (i : Int)
  | node (id : NodeId)
deriving Repr, DecidableEq, Inhabited

structure Tree where
  typed : Bool := false
  root : T := mkRoot []
  byId : List NodeId := []
  byData : List (DataId × List NodeId) := []
  /-- `calc_data_id` hook as a table atom ↦ id (`none` = the hook raises); `none` = default `hash(data)`. -/
  hook : Option (List (Nat × Option DataId)) := none
  /-- the system root's `_children` attribute is `None` (it starts as `[]` and becomes `None`
  whenever the last top-level node is taken away); only consulted while the root has no children. -/
  rootNone : Bool := false
deriving Repr, Inhabited

/-! ### primitives on the tree value -/

mutual
/-- apply `g` to the child list of node `p`. -/
def modT (p : NodeId) (g : List T → List T) : T → T
  | .node i ks => if i.id = p then .node i (g ks) else .node i (modL p g ks)
def modL (p : NodeId) (g : List T → List T) : List T → List T
  | [] => []
  | t :: ts => modT p g t :: modL p g ts
end

mutual
/-- apply `f` to the info of node `n`. -/
def setInfoT (n : NodeId) (f : Info → Info) : T → T
  | .node i ks => if i.id = n then .node (f i) ks else .node i (setInfoL n f ks)
def setInfoL (n : NodeId) (f : Info → Info) : List T → List T
  | [] => []
  | t :: ts => setInfoT n f t :: setInfoL n f ts
end

mutual
/-- the node with identity `n`. -/
def findT (n : NodeId) : T → Option T
  | .node i ks => if i.id = n then some (.node i ks) else findL n ks
def findL (n : NodeId) : List T → Option T
  | [] => none
  | t :: ts => match findT n t with
    | some r => some r
    | none => findL n ts
end

/-- Python `list.insert(i, x)`: negative indices count from the end, out-of-range clamps. -/
def pyInsert {α} (i : Int) (x : α) (l : List α) : List α :=
  let n : Int := l.length
  let j : Int := if i < 0 then (if n + i < 0 then 0 else n + i) else (if i > n then n else i)
  l.take j.toNat ++ x :: l.drop j.toNat

/-- position of the child with identity `b`. -/
def idxOf (b : NodeId) (l : List T) : Nat := l.findIdx fun n => n.id == b

def eraseId (b : NodeId) (l : List T) : List T := l.filter fun n => n.id != b

/-! ### the registries -/

def Tree.calcId (t : Tree) (a : Atom) : Except Err DataId :=
  match t.hook with
  | none => .ok a.hid
  | some tbl => match tbl.lookup a.obj with
    | some (some d) => .ok d
    | some none => .error .callback
    | none => .ok a.hid

/-- id of the `_parent` of node `n` (0 = system root). -/
def Tree.parentId (t : Tree) (n : NodeId) : Option NodeId := (findParent n t.root).map T.id

/-- `Tree._register(node)` for a node with identity `nid`, data_id `did`, whose `_parent`
is `parent`: the uniqueness test against each clone's parent, the roll-back of `_node_by_id`. -/
def Tree.register (t : Tree) (parent nid : NodeId) (did : DataId) : Except Err Tree :=
  match t.byData.lookup did with
  | some clones =>
    if clones.any (fun c => t.parentId c == some parent) then .error .unique
    else .ok { t with byId := t.byId ++ [nid],
                      byData := t.byData.map fun e => if e.1 = did then (e.1, e.2 ++ [nid]) else e }
  | none => .ok { t with byId := t.byId ++ [nid], byData := t.byData ++ [(did, [nid])] }

/-- `Tree._unregister(node)`: identity-based removal from the clone list, key deleted when
the list becomes empty. -/
def Tree.unregister (t : Tree) (nid : NodeId) (did : DataId) : Tree :=
  { t with byId := t.byId.filter (· != nid),
           byData := (t.byData.map fun e => if e.1 = did then (e.1, e.2.filter (· != nid)) else e).filter
                       fun e => !e.2.isEmpty }

def Tree.unregisterAll (t : Tree) (ns : List T) : Tree :=
  ns.foldl (fun t n => t.unregister n.id n.did) t

/-! ### add_child -/

/-- `before` validated against the target's current children: the insert position.
(`before is True` has already been mapped to index 0.)  Errors: a `before` node that is not a
child of the target → ValueError; on a leaf target the `assert before in (None, True, int, False)`. -/
def insertPosition (ks : List T) (isNone : Bool) (before : Before) : Except Err (List T → T → List T) :=
  match before with
  | .node b => if ks.any (fun k => k.id == b) then .ok (fun l x => l.take (idxOf b l) ++ x :: l.drop (idxOf b l))
               else .error .value
  | .none | .bFalse => .ok (fun l x => l ++ [x])
  | .bTrue => .ok (fun l x => x :: l)
  | .idx i =>
    if isNone then (if i = 0 ∨ i = 1 then .ok (fun l x => l ++ [x]) else .error .assertion)
    else .ok (fun l x => pyInsert i x l)

/-- `self._children is None` for the node `p` with identity `parent`. -/
def Tree.childrenNone (t : Tree) (parent : NodeId) (p : T) : Bool :=
  p.kids.isEmpty && (parent != 0 || t.rootNone)

/-- `Node.add_child(data, before=, data_id=)` / `TypedNode.add_child(data, kind=, …)`:
creates node `next`.  Order: validate `before`, compute the id (hook may raise), register
(uniqueness), insert. -/
def Tree.addData (t : Tree) (next : NodeId) (parent : NodeId) (a : Atom) (before : Before)
    (did? : Option DataId) (kind : Option String) : Except Err Tree :=
  match findT parent t.root with
  | none => .error .other
  | some p =>
    match insertPosition p.kids (t.childrenNone parent p) before with
    | .error e => .error e
    | .ok ins =>
      match (match did? with | some d => Except.ok d | none => t.calcId a) with
      | .error e => .error e
      | .ok did =>
        match t.register parent next did with
        | .error e => .error e
        | .ok t1 =>
          let kind := if t.typed then some (kind.getD "child") else none
          let n := T.node { id := next, data := a, did := did, kind := kind } []
          .ok { t1 with root := modT parent (fun l => ins l n) t1.root }

mutual
/-- `_add_from(other)`: append copies of the source children `src` below `target`
(which has no children), recursively; fresh ids are consumed in creation order.
Returns the state reached and the next fresh id; stops at the first error. -/
def Tree.addFromL (t : Tree) (next : NodeId) (target : NodeId) : List T → Tree × NodeId × Option Err
  | [] => (t, next, none)
  | c :: cs =>
    match Tree.addFromT t next target c with
    | (t1, n1, some e) => (t1, n1, some e)
    | (t1, n1, none) => Tree.addFromL t1 n1 target cs
def Tree.addFromT (t : Tree) (next : NodeId) (target : NodeId) : T → Tree × NodeId × Option Err
  | .node i ks =>
    match t.addData next target i.data .none (some i.did) i.kind with
    | .error e => (t, next, some e)
    | .ok t1 => Tree.addFromL t1 (next + 1) next ks
end

/-- `Node.add_child(source_node, before=, deep=, data_id=)`; `src` is the source node (a
snapshot of its branch), `sameTree`/`srcParent` describe where it lives. -/
def Tree.addNode (t : Tree) (next : NodeId) (parent : NodeId) (src : T) (srcInThisTree : Bool)
    (srcParent : Option NodeId) (before : Before) (deep : Option Bool) (did? : Option DataId)
    (kind : Option String) : Tree × NodeId × Option Err :=
  let deep := deep.getD false
  if deep && did?.isSome then (t, next, some .value)
  else if srcInThisTree && srcParent == some parent then (t, next, some .unique)
  else if (match did? with | some d => d != src.did | none => false) then (t, next, some .unique)   -- `data_id is not None and data_id != source's`
  else
    -- the copy keeps the source's data_id unless an (equal) one is given
    let did := some (did?.getD src.did)
    let kind := if t.typed then some (kind.getD "child") else none
    match t.addData next parent src.data before did kind with
    | .error e => (t, next, some e)
    | .ok t1 => if deep then Tree.addFromL t1 (next + 1) next src.kids else (t1, next + 1, none)

/-- `add_child(tree)`: the source's top nodes one by one (order preserved for every `before`);
a collision with an existing child is refused before anything is added. -/
def Tree.addTree (t : Tree) (next : NodeId) (parent : NodeId) (srcTops : List T) (before : Before)
    (deep : Option Bool) (keepKind : Bool := true) : Tree × NodeId × Option Err :=
  let deep := deep.getD true
  match findT parent t.root with
  | none => (t, next, some .other)
  | some p =>
    if srcTops.any (fun s => p.kids.any fun k => k.did == s.did) then (t, next, some .unique)
    else
      -- an index is resolved once (as `list.insert` clamps it); the k-th copy goes to position idx + k
      let n : Int := p.kids.length
      let start : Option Int := match before with
        | .bTrue => some 0
        | .idx i => some (if i < 0 then (if n + i < 0 then 0 else n + i) else (if i > n then n else i))
        | _ => none
      (srcTops.zipIdx).foldl (fun (acc : Tree × NodeId × Option Err) (sk : T × Nat) =>
        match acc with
        | (t, nx, some e) => (t, nx, some e)
        | (t, nx, none) =>
          let b := match start with
            | some i0 => Before.idx (i0 + sk.2)
            | none => before
          Tree.addNode t nx parent sk.1 false none b (some deep) none (if keepKind then sk.1.kind else none)) (t, next, none)

/-- `Node.copy_to(target, add_self=False, deep=)` / `Tree.copy_to(target, deep=)`: copies of the
source's children are appended to the target; a node without children → ValueError; a collision
with an existing child of the target is refused before anything is added. -/
def Tree.copyKids (t : Tree) (next : NodeId) (parent : NodeId) (srcKids : List T) (deep : Bool) :
    Tree × NodeId × Option Err :=
  if srcKids.isEmpty then (t, next, some .value)
  else Tree.addTree t next parent srcKids .none (some deep) false   -- `copy_to` passes no `kind=` (default kind in typed trees)

/-- `Tree.copy()`: a new tree of the same class (without the id callback; the ids are passed
explicitly) receiving copies of all nodes. -/
def Tree.copyAll (src : Tree) (next : NodeId) : Tree × NodeId × Option Err :=
  Tree.addFromL { typed := src.typed } next 0 src.root.kids

/-- `Node.copy(add_self=)`: a new tree of the same class with a copy of the branch. -/
def Tree.copyBranch (src : Tree) (next : NodeId) (n : T) (addSelf : Bool) : Tree × NodeId × Option Err :=
  let new : Tree := { typed := src.typed }
  if addSelf then Tree.addNode new next 0 n false none .none (some true) none none
  else Tree.addFromL new next 0 n.kids

/-! ### remove -/

/-- `Node.remove_children()`: unregister all descendants (post-order), drop the list. -/
def Tree.removeChildren (t : Tree) (n : NodeId) : Tree :=
  match findT n t.root with
  | none => t
  | some x =>
    let t1 := t.unregisterAll (iterPost x)
    { t1 with root := modT n (fun _ => []) t1.root, rootNone := t1.rootNone || n == 0 }

/-- plain `remove()` of one node (no keep_children, no clones). -/
def Tree.removeOne (t : Tree) (n : NodeId) : Tree :=
  match findT n t.root, t.parentId n with
  | some x, some p =>
    let t1 := t.removeChildren n
    let root2 := modT p (eraseId n) t1.root
    let t2 := { t1 with root := root2, rootNone := t1.rootNone || (p == 0 && root2.kids.isEmpty) }
    t2.unregister n x.did
  | _, _ => t

/-! ### move_to -/

/-- `Node.move_to(new_parent, before=)` inside one (plain) tree. Validation first:
target below/equal the moved node → ValueError; `before` node not a child of the target →
ValueError; leaf target with an index other than 0/1 → AssertionError; a sibling with the same
data_id at the (different) target → UniqueConstraintError. -/
def Tree.moveTo (t : Tree) (n : NodeId) (newParent : NodeId) (before : Before) : Except Err Tree :=
  if t.typed then .error .notImplemented
  else
  match findT n t.root, t.parentId n, findT newParent t.root with
  | some x, some oldP, some np =>
    if newParent = n ∨ (findT newParent x).isSome then .error .value
    else
      let rest := eraseId n np.kids          -- the target's children once `n` is detached
      let before := if before = .bTrue then Before.idx 0 else before
      match (match before with
             | .node b => if b = n then Except.error Err.value else insertPosition rest false before
             | .idx i => if rest.isEmpty then (if i = 0 ∨ i = 1 then Except.ok (fun l x => l ++ [x]) else .error .assertion)
                         else .ok (fun l x => pyInsert i x l)
             | b => insertPosition rest false b) with
      | .error e => .error e
      | .ok ins =>
        if oldP != newParent && rest.any (fun k => k.did == x.did) then .error .unique
        else
          let r1 := modT oldP (eraseId n) t.root
          .ok { t with root := modT newParent (fun l => ins l x) r1,
                       rootNone := t.rootNone || (oldP == 0 && r1.kids.isEmpty) }
  | _, _, _ => .error .other

/-- `Node.remove(keep_children=True)` for one node: children are moved before the node (in
order), then the node is removed.  Refused up front if a child's data_id equals a sibling's. -/
def Tree.removeKeep (t : Tree) (n : NodeId) : Except Err Tree :=
  match findT n t.root, t.parentId n with
  | some x, some p =>
    match findT p t.root with
    | none => .error .other
    | some par =>
      if x.kids.isEmpty then .ok (t.removeOne n)
      else if x.kids.any (fun c => par.kids.any fun s => s.id != n && s.did == c.did) then .error .unique
      else
        let splice := fun (l : List T) => l.take (idxOf n l) ++ x.kids ++ l.drop (idxOf n l + 1)
        let t1 := { t with root := modT p splice t.root }
        .ok (t1.unregister n x.did)
  | _, _ => .error .other

/-- `Node.remove(keep_children=, with_clones=)`. With clones: the other clones first (in
index order), then the node. Stops at the first refusal. -/
def Tree.remove (t : Tree) (n : NodeId) (keepChildren withClones : Bool) : Tree × Option Err :=
  match findT n t.root with
  | none => (t, some .other)
  | some x =>
    let others := if withClones then ((t.byData.lookup x.did).getD []).filter (· != n) else []
    let step := fun (acc : Tree × Option Err) (c : NodeId) =>
      match acc with
      | (t, some e) => (t, some e)
      | (t, none) =>
        if (findT c t.root).isNone then (t, none)             -- already removed as descendant of another clone
        else if keepChildren then
          match t.removeKeep c with
          | .ok t1 => (t1, none)
          | .error e => (t, some e)
        else (t.removeOne c, none)
    (others ++ [n]).foldl step (t, none)

/-! ### sort -/

/-- sort key: `none` = the key function raises for that node. -/
abbrev KeyFn := T → Option String

/-- `Node.sort_children(key=, reverse=, deep=)` on a node value (stable; `reverse=True` keeps
the original order of equal keys, as `list.sort` does).  A raising key leaves the list it was
sorting unchanged and propagates.  The recursion follows the *sorted* list, as the code does;
it is bounded by fuel (the height of the branch suffices). -/
def sortT (key : KeyFn) (rev deep : Bool) : Nat → T → T × Bool     -- (result, ok?)
  | 0, t => (t, true)
  | f + 1, .node i ks =>
    if ks.isEmpty || (ks.length == 1 && !deep) then (.node i ks, true)
    else if ks.any (fun k => (key k).isNone) then (.node i ks, false)
    else
      let le := fun (a b : T) => if rev then decide ((key b).getD "" ≤ (key a).getD "") else decide ((key a).getD "" ≤ (key b).getD "")
      let sorted := ks.mergeSort le
      if deep then
        let r := sorted.foldl (fun (acc : List T × Bool) c =>
          if acc.2 then let rc := sortT key rev deep f c; (acc.1 ++ [rc.1], rc.2) else (acc.1 ++ [c], false)) ([], true)
        (.node i r.1, r.2)
      else (.node i sorted, true)

mutual
def replaceT (n : NodeId) (new : T) : T → T
  | .node i ks => if i.id = n then new else .node i (replaceL n new ks)
def replaceL (n : NodeId) (new : T) : List T → List T
  | [] => []
  | t :: ts => replaceT n new t :: replaceL n new ts
end

def Tree.sort (t : Tree) (n : NodeId) (key : KeyFn) (rev deep : Bool) : Tree × Option Err :=
  match findT n t.root with
  | none => (t, some .other)
  | some x =>
    let r := sortT key rev deep (x.height + 1) x
    ({ t with root := replaceT n r.1 t.root }, if r.2 then none else some .callback)

/-! ### set_data -/

/-- `Node.set_data(data, data_id=, with_clones=)`.  `data? = none` means `None`.
Refusals: nothing given → ValueError; clones without decision → AmbiguousMatchError; the new
id already used by a sibling of an affected node → UniqueConstraintError. -/
def Tree.setData (t : Tree) (n : NodeId) (data? : Option Atom) (did? : Option DataId)
    (withClones : Option Bool) : Except Err Tree :=
  match findT n t.root with
  | none => .error .other
  | some x =>
    if data?.isNone && did?.isNone then .error .value
    else
      let newData : Option Atom := match data? with
        | some a => if a.obj == x.data.obj then none else some a
        | none => none
      match (match newData, did? with
             | some a, none => (t.calcId a).map some
             | _, d => Except.ok d) with
      | .error e => .error e
      | .ok did1 =>
        let newDid : Option DataId := match did1 with
          | some d => if d = x.did then none else some d
          | none => none
        let cur := (t.byData.lookup x.did).getD []
        let hasClones := cur.length > 1
        if hasClones && withClones.isNone then .error .ambiguous
        else
          let wc := withClones.getD false
          let affected := if hasClones && wc then cur else [n]
          match newDid with
          | some d =>
            -- uniqueness among the siblings of every affected node
            let clash := affected.any fun c =>
              match findParent c t.root with
              | some par => par.kids.any fun s => s.id != c && s.did == d
              | none => false
            if clash then .error .unique
            else
              let upd := fun (i : Info) => { i with did := d, data := newData.getD i.data }
              let root1 := affected.foldl (fun r c => setInfoT c upd r) t.root
              let bd0 := (t.byData.map fun e => if e.1 = x.did then (e.1, e.2.filter fun c => !(affected.contains c)) else e).filter
                            fun e => !e.2.isEmpty
              let bd1 := match bd0.lookup d with
                | some _ => bd0.map fun e => if e.1 = d then (e.1, e.2 ++ affected) else e
                | none => bd0 ++ [(d, affected)]
              .ok { t with root := root1, byData := bd1 }
          | none =>
            match newData with
            | some a =>
              let targets := if wc then cur else [n]
              .ok { t with root := targets.foldl (fun r c => setInfoT c (fun i => { i with data := a }) r) t.root }
            | none => .ok t

/-! ### metadata -/

def metaSet (m : Option (List (String × String))) (k v : String) : Option (List (String × String)) :=
  match m with
  | none => some [(k, v)]
  | some l => if l.any (·.1 == k) then some (l.map fun e => if e.1 == k then (k, v) else e) else some (l ++ [(k, v)])

def metaClear (m : Option (List (String × String))) (k : Option String) : Option (List (String × String)) :=
  match k, m with
  | none, _ => none
  | some _, none => none
  | some k, some l => let l' := l.filter (·.1 != k); if l'.isEmpty then none else some l'

def metaUpdate (m : Option (List (String × String))) (vals : List (String × String)) (replace : Bool) :
    Option (List (String × String)) :=
  match replace, m with
  | true, _ => some vals
  | false, none => some vals
  | false, some l => vals.foldl (fun acc e => metaSet acc e.1 e.2) (some l)

/-- `Node.set_meta(key, value)` with the value as JSON text: `None` (`null`) removes the entry — every other
value, falsy ones included (`0`, `false`, `""`, `[]`), is stored. -/
def metaSetV (m : Option (List (String × String))) (k v : String) : Option (List (String × String)) :=
  if v == "null" then metaClear m (some k) else metaSet m k v

/-! ### the shortcuts of `add_child` -/

/-- the four shortcuts of `add_child` (node.py / typed_tree.py): `append_child`, `prepend_child`,
`prepend_sibling`, `append_sibling`.  (They exist on `Node` / `TypedNode` only; `Tree` has none of
them — the system root is reached through `tree.system_root`.) -/
inductive Via where
  | appendChild | prependChild | prependSibling | appendSibling
deriving Repr, DecidableEq, Inhabited

/-- the `add_child` call that a shortcut called on node `ref` makes: (target, `before`, `kind`).
* `append_child(data, kind=k)`  = `self.add_child(data, kind=k, before=None)`;
* `prepend_child(data, kind=k)` = `self.add_child(data, kind=k, before=self.first_child())`
  (typed: `first_child(kind=ANY_KIND)`): the first child whatever its kind, `None` (= append) when there
  are no children;
* `prepend_sibling(data)` = `self._parent.add_child(data, before=self)`; in a typed tree with
  `kind=self.kind` — the shortcut has no `kind` parameter, the caller's `kind` is not consulted;
* `append_sibling(data)`  = `self._parent.add_child(data, before=self.next_sibling())` (typed:
  `next_sibling(any_kind=True)`, `kind=self.kind`): the child that follows `self` in the parent's
  list whatever its kind, `None` (= append) when `self` is the last one.
The sibling forms on the system root (`_parent is None`) raise `AttributeError`; an unknown `ref` is
`Err.other` (the driver never sends one).  In a plain tree `x.kind` is `none` and `addData` ignores it. -/
def Tree.viaArgs (t : Tree) (ref : NodeId) (via : Via) (kind : Option String) :
    Except Err (NodeId × Before × Option String) :=
  match via with
  | .appendChild => .ok (ref, .none, kind)
  | .prependChild =>
    match findT ref t.root with
    | none => .error .other
    | some p => match p.kids with
      | [] => .ok (ref, .none, kind)
      | c :: _ => .ok (ref, .node c.id, kind)
  | .prependSibling =>
    match findT ref t.root, findParent ref t.root with
    | none, _ => .error .other
    | some _, none => .error .attribute
    | some x, some par => .ok (par.id, .node ref, x.kind)
  | .appendSibling =>
    match findT ref t.root, findParent ref t.root with
    | none, _ => .error .other
    | some _, none => .error .attribute
    | some x, some par =>
      match par.kids[idxOf ref par.kids + 1]? with
      | some s => .ok (par.id, .node s.id, x.kind)
      | none => .ok (par.id, .none, x.kind)

/-! ### `tree[key]` / `del tree[key]` -/

/-- `hash(i)` of a Python `int` in the range the harness uses (|i| < 2^61 - 1): the value itself,
except `hash(-1) == -2`. -/
def pyHashInt (i : Int) : Int := if i = -1 then -2 else i

/-- `Tree.__getitem__(key)` up to the list of matches (`res`).  The key is described by
`a` — the key as a data object, when it is one of the pool's objects — and `asId` — the key as a
data_id, when it is an `int` or a `str` (both are given for a pool object that is an `int`/`str`).
Statement by statement:
* `isinstance(key, Node)` (neither `a` nor `asId`) → ValueError;
* the `node_id` lookup for `int` keys is NOT modelled: default node ids are `id(node)`, never a small
  int, and the harness never passes a `node_id=`;
* `isinstance(key, (int, str)) and key in self._nodes_by_data_id` → `find_all(data_id=key)`;
* otherwise `find_all(key)`: the clones registered under `calc_data_id(key)` — the hook-aware
  `Tree.calcId` that `addData` uses (a raising hook is `Err.callback`); for an `int` that is no pool
  object the id is `hash(key)`; a `str` that is no pool object has an unpredictable (salted) hash, which
  is assumed not to be a data_id in use: no match. -/
def Tree.lookupKey (t : Tree) (a : Option Atom) (asId : Option DataId) : Except Err (List NodeId) :=
  if a.isNone && asId.isNone then .error .value
  else
    match asId.bind (fun d => t.byData.lookup d) with
    | some clones => .ok clones
    | none =>
      match a with
      | some atom =>
        match t.calcId atom with
        | .error e => .error e
        | .ok d => .ok ((t.byData.lookup d).getD [])
      | none =>
        match asId with
        | some (.int i) => .ok ((t.byData.lookup (.int (pyHashInt i))).getD [])
        | _ => .ok []

/-- `Tree.__delitem__(key)` = `self[key].remove()`: no match → KeyError, several →
AmbiguousMatchError, exactly one node → `remove()` with the defaults (children removed too, no
clones). -/
def Tree.delItem (t : Tree) (a : Option Atom) (asId : Option DataId) : Tree × Option Err :=
  match t.lookupKey a asId with
  | .error e => (t, some e)
  | .ok [] => (t, some .key)
  | .ok [n] => t.remove n false false
  | .ok _ => (t, some .ambiguous)

end Nutree
