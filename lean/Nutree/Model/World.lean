/-
  Nutree.Model.World — the operation alphabet and the step function of the model.
  The driver parses each wire operation into an `Op` (resolving paths to node ids against the
  model's current state) and calls `World.step`; the theorems about histories quantify over
  `List Op`.
-/
import Nutree.Model.Ops
import Nutree.Model.Filter
namespace Nutree
open T

structure World where
  trees : List Tree := []
  next : NodeId := 1
deriving Inhabited

inductive Op where
  | newTree (typed : Bool) (hook : Option (List (Nat × Option DataId)))
  | add (t : Nat) (parent : NodeId) (a : Atom) (before : Before) (did : Option DataId) (kind : Option String)
  | addNode (t : Nat) (parent : NodeId) (st : Nat) (src : NodeId) (before : Before) (deep : Option Bool)
      (did : Option DataId) (kind : Option String)
  | addTree (t : Nat) (parent : NodeId) (st : Nat) (before : Before) (deep : Option Bool)
  | copyKids (t : Nat) (parent : NodeId) (st : Nat) (src : NodeId) (deep : Bool)
  | copyAll (st : Nat)
  | copyBranch (st : Nat) (src : NodeId) (addSelf : Bool)
  | move (t : Nat) (n : NodeId) (to : NodeId) (before : Before)
  | moveCross (t : Nat) (n : NodeId)                         -- target in another tree
  | remove (t : Nat) (n : NodeId) (keepChildren withClones : Bool)
  | removeChildren (t : Nat) (n : NodeId)
  | sort (t : Nat) (n : NodeId) (key : KeyFn) (rev deep : Bool)
  | setData (t : Nat) (n : NodeId) (a : Option Atom) (did : Option DataId) (withClones : Option Bool) (rename : Bool)
  | setMeta (t : Nat) (n : NodeId) (m : Option (List (String × String)))
  | filter (t : Nat) (n : NodeId) (v : T → Flt.Verdict)
  | filtered (st : Nat) (src : Option NodeId) (v : T → Flt.Verdict)
  /-- a shortcut of `add_child` called on node `ref` (`append_child` / `prepend_child`: the parent, 0 =
  the system root; `prepend_sibling` / `append_sibling`: the sibling).  The target, `before` and (for the
  sibling forms in a typed tree) the kind are resolved by `Tree.viaArgs`. -/
  | addVia (t : Nat) (ref : NodeId) (a : Atom) (via : Via) (did : Option DataId) (kind : Option String)
  /-- `del tree[key]`; `a` = the key as a pool data object, `asId` = the key as a data_id (int/str);
  neither = the key is a `Node`.  See `Tree.lookupKey`. -/
  | delItem (t : Nat) (a : Option Atom) (asId : Option DataId)
  /-- `node.set_meta(k, v)`, the value as JSON text (`null` removes the entry). -/
  | metaSet (t : Nat) (n : NodeId) (k v : String)
  /-- `node.clear_meta(k)` (`none` = all). -/
  | metaClear (t : Nat) (n : NodeId) (k : Option String)
  /-- `node.update_meta(vals, replace=)`. -/
  | metaUpdate (t : Nat) (n : NodeId) (vals : List (String × String)) (replace : Bool)
  /-- `Tree.clear()` = `self._root.remove_children()`. -/
  | clear (t : Nat)
  /-- `Tree.sort(key=, reverse=, deep=)` = `self._root.sort_children(key=, reverse=, deep=)`; `deep`
  defaults to `True` here (`Node.sort_children` defaults to `False`). -/
  | sortTree (t : Nat) (key : KeyFn) (rev : Bool) (deep : Option Bool)

namespace World

def setTree (w : World) (i : Nat) (t : Tree) : World := { w with trees := w.trees.set i t }

/-- result of a multi-node operation on tree `i`. -/
def put (w : World) (i : Nat) (r : Tree × NodeId × Option Err) : World × Option Err :=
  ({ trees := w.trees.set i r.1, next := r.2.1 }, r.2.2)

/-- result of an operation that creates a new tree (nothing is created when it fails). -/
def push (w : World) (r : Tree × NodeId × Option Err) : World × Option Err :=
  match r.2.2 with
  | some e => (w, some e)
  | none => ({ trees := w.trees ++ [r.1], next := r.2.1 }, none)

/-- a metadata edit of node `n` of tree `i`: the new dictionary is `f` of the node's current one. -/
def metaEdit (w : World) (i : Nat) (n : NodeId)
    (f : Option (List (String × String)) → Option (List (String × String))) : World × Option Err :=
  match w.trees[i]? with
  | none => (w, some .other)
  | some t => match findT n t.root with
    | none => (w, some .other)
    | some x => (w.setTree i { t with root := setInfoT n (fun inf => { inf with nmeta := f x.info.nmeta }) t.root }, none)

/-- one operation; an unknown tree index or node id is `Err.other` (the driver never sends one). -/
def step (w : World) : Op → World × Option Err
  | .newTree typed hook => ({ w with trees := w.trees ++ [{ typed := typed, hook := hook }] }, none)
  | .add i parent a before did kind =>
    match w.trees[i]? with
    | none => (w, some .other)
    | some t => match t.addData w.next parent a before did kind with
      | .ok t1 => ({ trees := w.trees.set i t1, next := w.next + 1 }, none)
      | .error e => (w, some e)
  | .addNode i parent si src before deep did kind =>
    match w.trees[i]?, w.trees[si]? with
    | some t, some s => match findT src s.root with
      | none => (w, some .other)
      | some x =>
        let srcParent := if si == i then t.parentId src else none
        w.put i (t.addNode w.next parent x (si == i) srcParent before deep did kind)
    | _, _ => (w, some .other)
  | .addTree i parent si before deep =>
    match w.trees[i]?, w.trees[si]? with
    | some t, some s => w.put i (t.addTree w.next parent s.root.kids before deep)
    | _, _ => (w, some .other)
  | .copyKids i parent si src deep =>
    match w.trees[i]?, w.trees[si]? with
    | some t, some s => match findT src s.root with
      | none => (w, some .other)
      | some x => w.put i (t.copyKids w.next parent x.kids deep)
    | _, _ => (w, some .other)
  | .copyAll si =>
    match w.trees[si]? with
    | none => (w, some .other)
    | some s => w.push (s.copyAll w.next)
  | .copyBranch si src addSelf =>
    match w.trees[si]? with
    | none => (w, some .other)
    | some s => match findT src s.root with
      | none => (w, some .other)
      | some x => w.push (s.copyBranch w.next x addSelf)
  | .move i n to before =>
    match w.trees[i]? with
    | none => (w, some .other)
    | some t => match t.moveTo n to before with
      | .ok t1 => (w.setTree i t1, none)
      | .error e => (w, some e)
  | .moveCross _ _ => (w, some .notImplemented)
  | .remove i n keep clones =>
    match w.trees[i]? with
    | none => (w, some .other)
    | some t => let r := t.remove n keep clones; (w.setTree i r.1, r.2)
  | .removeChildren i n =>
    match w.trees[i]? with
    | none => (w, some .other)
    | some t => (w.setTree i (t.removeChildren n), none)
  | .sort i n key rev deep =>
    match w.trees[i]? with
    | none => (w, some .other)
    | some t => let r := t.sort n key rev deep; (w.setTree i r.1, r.2)
  | .setData i n a did wc rename =>
    if n = 0 then (w, some .other) else          -- the system root is not a node of the API
    match w.trees[i]? with
    | none => (w, some .other)
    | some t => match findT n t.root with
      | none => (w, some .other)
      | some x =>
        -- `rename`: only for plain string nodes, then `set_data(new_name)`
        if rename && !x.data.isStr then (w, some .value)
        else match t.setData n a did wc with
          | .ok t1 => (w.setTree i t1, none)
          | .error e => (w, some e)
  | .setMeta i n m =>
    match w.trees[i]? with
    | none => (w, some .other)
    | some t => (w.setTree i { t with root := setInfoT n (fun inf => { inf with nmeta := m }) t.root }, none)
  | .filter i n v =>
    match w.trees[i]? with
    | none => (w, some .other)
    | some t => let r := Flt.filterInPlace t n v; (w.setTree i r.1, r.2)
  | .filtered si src v =>
    match w.trees[si]? with
    | none => (w, some .other)
    | some s => match src with
      | none => w.push (Flt.treeFiltered s w.next v)
      | some n => match findT n s.root with
        | none => (w, some .other)
        | some x => w.push (Flt.nodeFiltered s w.next x v)
  | .addVia i ref a via did kind =>
    match w.trees[i]? with
    | none => (w, some .other)
    | some t => match t.viaArgs ref via kind with
      | .error e => (w, some e)
      | .ok r => match t.addData w.next r.1 a r.2.1 did r.2.2 with
        | .ok t1 => ({ trees := w.trees.set i t1, next := w.next + 1 }, none)
        | .error e => (w, some e)
  | .delItem i a asId =>
    match w.trees[i]? with
    | none => (w, some .other)
    | some t => let r := t.delItem a asId; (w.setTree i r.1, r.2)
  | .metaSet i n k v => w.metaEdit i n (fun m => metaSetV m k v)
  | .metaClear i n k => w.metaEdit i n (fun m => metaClear m k)
  | .metaUpdate i n vals replace => w.metaEdit i n (fun m => metaUpdate m vals replace)
  | .clear i =>
    match w.trees[i]? with
    | none => (w, some .other)
    | some t => (w.setTree i (t.removeChildren 0), none)
  | .sortTree i key rev deep =>
    match w.trees[i]? with
    | none => (w, some .other)
    | some t => let r := t.sort 0 key rev (deep.getD true); (w.setTree i r.1, r.2)

/-- the state after a history. -/
def run (ops : List Op) : World := ops.foldl (fun w o => (step w o).1) {}

end World
end Nutree
