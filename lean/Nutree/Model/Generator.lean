/-
  Nutree.Model.Generator — operational model of `nutree/tree_generator.py`
  (`Randomizer._skip_value`, the `generate` method of every randomizer class,
  `_resolve_random`, `_resolve_random_dict`, `_merge_specs`, `_make_tree`, `build_random_tree`).

  "For all random seeds" is modelled as "for all draw streams": every call of a function of the
  module `random` (and every text produced by fabulist) is one element of an explicit list of
  `Draw`s which the model consumes in the order in which the Python code makes the calls.  A draw
  records the function, its arguments and its result; the model checks that the arguments are the
  ones it expects at this point and that the result honours the documented contract of the function
  (`randrange(a, b)` returns `a ≤ r < b`); a stream that does not fit is rejected (`none`).

  * Python values: `Val` (`None`, int, str, bool, float as an exact ratio `num/den`, date as
    proleptic Gregorian ordinal).  Floats are never computed with, except for the JS time stamp of
    `DateRangeRandomizer` which is an integer number of milliseconds.
  * A python `dict` is an association list with unique keys in insertion order.
  * `:callback` and `:factory` are popped and ignored (default factory `DictWrapper`, no callback).
  * `str.format(**macros)` is modelled for the replacement fields `{idx}` and `{hier_idx}` and the
    escapes `{{`, `}}`; every other replacement field is an error (`none`) — this coincides with
    Python for unknown names / positional fields / unbalanced braces (KeyError, IndexError,
    ValueError) and is outside the model for conversions and format specs (`{idx!r}`, `{idx:03}`).
  * The recursion of `_make_tree` is bounded by `fuel` (one unit per level).  The Python code does
    not terminate on a cyclic relation graph whose counts are ≥ 1; the model is meant for acyclic
    relation graphs, where `fuel = number of relations + 1` suffices.
-/
namespace Nutree
namespace Gen

/-- A Python value that can occur in a structure definition / in node data. -/
inductive Val
  | none
  | int (i : Int)
  | str (s : String)
  | bool (b : Bool)
  | flt (num : Int) (den : Nat)
  | date (ord : Int)
  deriving DecidableEq, Repr, Inhabited

/-- A float in `[0, 1]` as the exact ratio `num/den` (`float.as_integer_ratio`). -/
structure Prob where
  num : Nat
  den : Nat
  deriving DecidableEq, Repr, Inhabited

/-- `probability == 1.0` -/
def Prob.isOne (p : Prob) : Bool := p.num == p.den
/-- `u <= p` for ratios with positive denominators. -/
def Prob.le (u p : Prob) : Bool := u.num * p.den ≤ p.num * u.den

/-- The randomizer classes (constructor arguments after `__init__`). -/
inductive RSpec
  /-- `RangeRandomizer(min, max, probability=, none_value=)` with ints -/
  | rangeInt (min max : Int) (p : Prob) (noneValue : Val)
  /-- `RangeRandomizer(min, max, …)` with floats (`is_float`) -/
  | rangeFlt (min max : Val) (p : Prob) (noneValue : Val)
  /-- `DateRangeRandomizer(min_dt, max_dt, as_js_stamp=, probability=)`: ordinal of `min_dt`, `delta_days` -/
  | dateRange (min : Int) (delta : Int) (stamp : Bool) (p : Prob)
  /-- `ValueRandomizer(value, probability=)` -/
  | value (v : Val) (p : Prob)
  /-- `SparseBoolRandomizer(probability=)` -/
  | sparseBool (p : Prob)
  /-- `SampleRandomizer(sample_list, counts=, probability=)` -/
  | sample (values : List Val) (counts : Option (List Nat)) (p : Prob)
  /-- `TextRandomizer` / `BlindTextRandomizer` (the text is opaque) -/
  | text (p : Prob)
  deriving DecidableEq, Repr, Inhabited

/-- One recorded call of the module `random` (or of fabulist). -/
inductive Draw
  /-- `random.random()` returned `u` -/
  | rand (u : Prob)
  /-- `random.randrange(lo, hi)` returned `r` (`randrange(n)` is recorded as `randrange(0, n)`) -/
  | randrange (lo hi r : Int)
  /-- `random.uniform(lo, hi)` returned `v` -/
  | uniform (lo hi v : Val)
  /-- `random.sample(values, 1, counts=counts)` returned `[values[i]]` -/
  | sampleIdx (values : List Val) (counts : Option (List Nat)) (i : Nat)
  /-- `fab.get_quote(..)` / `fab.get_lorem_paragraph(..)` returned `s` -/
  | text (s : String)
  /-- any other function of `random` (never expected by the model) -/
  | other (name : String)
  deriving DecidableEq, Repr, Inhabited

/-- A value of a spec dictionary: a constant or a `Randomizer` instance. -/
inductive SVal
  | const (v : Val)
  | rnd (r : RSpec)
  deriving DecidableEq, Repr, Inhabited

abbrev Spec := List (String × SVal)
abbrev Attrs := List (String × Val)

/-- `structure_def` after `name` was popped. -/
structure Def where
  types : List (String × Spec)
  relations : List (String × List (String × Spec))
  deriving Repr, Inhabited

/-- A generated node: the node type it was created for, `node.kind` (`none` for a plain `Node`),
the items of `node.data._dict` in order, the children. -/
inductive GNode
  | mk (type : String) (kind : Option String) (attrs : Attrs) (kids : List GNode)
  deriving Repr, Inhabited

namespace GNode
def type : GNode → String | .mk t _ _ _ => t
def kind : GNode → Option String | .mk _ k _ _ => k
def attrs : GNode → Attrs | .mk _ _ a _ => a
def kids : GNode → List GNode | .mk _ _ _ k => k
end GNode

/-! ### dict helpers -/

/-- `d.get(k)` -/
def lookup {α} (k : String) : List (String × α) → Option α
  | [] => none
  | (k', v) :: t => if k' = k then some v else lookup k t

/-- `d[k] = v` (an existing key keeps its position) -/
def upsert {α} (k : String) (v : α) : List (String × α) → List (String × α)
  | [] => [(k, v)]
  | (k', v') :: t => if k' = k then (k', v) :: t else (k', v') :: upsert k v t

/-- `d.update(u)` -/
def update {α} (d u : List (String × α)) : List (String × α) :=
  u.foldl (fun acc kv => upsert kv.1 kv.2 acc) d

/-- the dict after `d.pop(k, default)` -/
def erase {α} (k : String) (d : List (String × α)) : List (String × α) :=
  d.filter (fun kv => kv.1 ≠ k)

/-! ### randomizers -/

/-- `Randomizer._skip_value`: `use = probability == 1.0 or random.random() <= probability`;
no draw is made when the probability is 1.0. Returns `(skip, remaining draws)`. -/
def skipValue (p : Prob) (ds : List Draw) : Option (Bool × List Draw) :=
  if p.isOne then some (false, ds)
  else match ds with
    | .rand u :: ds' => some (!(u.le p), ds')
    | _ => none

def Val.isFlt : Val → Bool
  | .flt _ _ => true
  | _ => false

/-- ordinal of 1970-01-01 -/
def epochOrd : Int := 719163

/-- `(datetime(y, m, d, tzinfo=utc).timestamp() + ONE_DAY_SEC) * 1000.0` for the date with ordinal `ord` -/
def jsStamp (ord : Int) : Val := .flt (((ord - epochOrd) * 86400 + 86400) * 1000) 1

/-- `if self._skip_value(): return <skipped>` followed by the rest of `generate` -/
def withSkip (p : Prob) (skipped : Val) (gen : List Draw → Option (Val × List Draw))
    (ds : List Draw) : Option (Val × List Draw) :=
  match skipValue p ds with
  | none => none
  | some (true, ds') => some (skipped, ds')
  | some (false, ds') => gen ds'

/-- `return random.randrange(self.min, self.max)` -/
def genRangeInt (lo hi : Int) : List Draw → Option (Val × List Draw)
  | .randrange a b r :: ds' =>
    if a = lo ∧ b = hi ∧ lo ≤ r ∧ r < hi then some (.int r, ds') else none
  | _ => none

/-- `return random.uniform(self.min, self.max)` -/
def genRangeFlt (lo hi : Val) : List Draw → Option (Val × List Draw)
  | .uniform a b v :: ds' =>
    if a = lo ∧ b = hi ∧ v.isFlt = true then some (v, ds') else none
  | _ => none

/-- `res = self.min + timedelta(days=random.randrange(self.delta_days))`, then the conversion to
a JS time stamp if `as_js_stamp` -/
def genDate (lo delta : Int) (stamp : Bool) : List Draw → Option (Val × List Draw)
  | .randrange a b r :: ds' =>
    if a = 0 ∧ b = delta ∧ 0 ≤ r ∧ r < delta then
      some (if stamp then jsStamp (lo + r) else .date (lo + r), ds')
    else none
  | _ => none

/-- `return random.sample(self.sample_list, 1, counts=self.counts)[0]` -/
def genSample (vs : List Val) (cs : Option (List Nat)) : List Draw → Option (Val × List Draw)
  | .sampleIdx vs' cs' i :: ds' =>
    if vs' = vs ∧ cs' = cs then
      match vs[i]? with
      | none => none
      | some v =>
        match cs with
        | none => some (v, ds')
        | some c => if 0 < c.getD i 0 then some (v, ds') else none
    else none
  | _ => none

/-- `return fab.get_quote(self.template)` / `fab.get_lorem_paragraph(...)` -/
def genText : List Draw → Option (Val × List Draw)
  | .text s :: ds' => some (.str s, ds')
  | _ => none

/-- `randomizer.generate()` -/
def resolve : RSpec → List Draw → Option (Val × List Draw)
  | .rangeInt lo hi p nv, ds => withSkip p nv (genRangeInt lo hi) ds
  | .rangeFlt lo hi p nv, ds => withSkip p nv (genRangeFlt lo hi) ds
  | .dateRange lo delta stamp p, ds => withSkip p .none (genDate lo delta stamp) ds
  | .value v p, ds => withSkip p .none (fun ds => some (v, ds)) ds
  | .sparseBool p, ds => withSkip p .none (fun ds => some (.bool true, ds)) ds
  | .sample vs cs p, ds => withSkip p .none (genSample vs cs) ds
  | .text p, ds => withSkip p .none genText ds

/-- `_resolve_random(val)` -/
def resolveSVal : SVal → List Draw → Option (Val × List Draw)
  | .const v, ds => some (v, ds)
  | .rnd r, ds => resolve r ds

/-! ### `str.format(idx=…, hier_idx=…)` -/

/-- the value of the replacement field `name` -/
def macroVal (idx : Nat) (hier : String) (name : List Char) : Option (List Char) :=
  if name = "idx".toList then some (toString idx).toList
  else if name = "hier_idx".toList then some hier.toList
  else none

inductive FSt
  | out
  | lbrace
  | rbrace
  | field (rev : List Char)

/-- the scanner of `str.format`: literal text, `{{`, `}}`, `{name}` -/
def fmtRun (idx : Nat) (hier : String) : FSt → List Char → Option (List Char)
  | .out, [] => some []
  | .lbrace, [] => none
  | .rbrace, [] => none
  | .field _, [] => none
  | .out, c :: cs =>
    if c = '{' then fmtRun idx hier .lbrace cs
    else if c = '}' then fmtRun idx hier .rbrace cs
    else (fmtRun idx hier .out cs).map (c :: ·)
  | .lbrace, c :: cs =>
    if c = '{' then (fmtRun idx hier .out cs).map ('{' :: ·)
    else if c = '}' then none
    else fmtRun idx hier (.field [c]) cs
  | .rbrace, c :: cs =>
    if c = '}' then (fmtRun idx hier .out cs).map ('}' :: ·) else none
  | .field n, c :: cs =>
    if c = '}' then
      match macroVal idx hier n.reverse with
      | none => none
      | some v => (fmtRun idx hier .out cs).map (v ++ ·)
    else if c = '{' then none
    else fmtRun idx hier (.field (c :: n)) cs

/-- `s.format(idx=idx, hier_idx=hier)`; `none` = the call raises (or is outside the model) -/
def expand (idx : Nat) (hier : String) (s : String) : Option String :=
  (fmtRun idx hier .out s.toList).map String.ofList

/-- `if macros and isinstance(val, str): d[key] = val.format(**macros)` -/
def fmtVal (idx : Nat) (hier : String) : Val → Option Val
  | .str s => (expand idx hier s).map .str
  | v => some v

/-- `_resolve_random_dict(data, macros={"idx": idx, "hier_idx": hier})`: the resulting dict.
A randomizer that returns `None` removes its key; strings (constant or generated) are formatted. -/
def resolveDict (idx : Nat) (hier : String) : Spec → List Draw → Option (Attrs × List Draw)
  | [], ds => some ([], ds)
  | (k, .const v) :: body, ds =>
    match fmtVal idx hier v with
    | none => none
    | some v' =>
      match resolveDict idx hier body ds with
      | none => none
      | some (rest, ds') => some ((k, v') :: rest, ds')
  | (k, .rnd r) :: body, ds =>
    match resolve r ds with
    | none => none
    | some (v, ds1) =>
      if v = .none then resolveDict idx hier body ds1
      else
        match fmtVal idx hier v with
        | none => none
        | some v' =>
          match resolveDict idx hier body ds1 with
          | none => none
          | some (rest, ds') => some ((k, v') :: rest, ds')

/-! ### tree builder -/

/-- `_merge_specs(node_type, spec, types)` -/
def mergeSpecs (ntype : String) (spec : Spec) (types : List (String × Spec)) : Spec :=
  update (update ((lookup "*" types).getD []) ((lookup ntype types).getD [])) spec

/-- the value popped by `spec.pop(":count", 1)` (`none` = the default 1) -/
def countSpec (m : Spec) : Option SVal := lookup ":count" m

/-- the spec after the three `pop`s -/
def attrSpec (m : Spec) : Spec := erase ":factory" (erase ":callback" (erase ":count" m))

/-- `range(x or 0)` for the resolved count `x`: the number of iterations; `none` = TypeError -/
def countOf : Val → Option Nat
  | .none => some 0
  | .int i => some i.toNat
  | .bool b => some (if b then 1 else 0)
  | .str s => if s = "" then some 0 else none
  | .flt n _ => if n = 0 then some 0 else none
  | .date _ => none

/-- `count = spec.pop(":count", 1); count = _resolve_random(count) or 0` -/
def resolveCount (c : Option SVal) (ds : List Draw) : Option (Nat × List Draw) :=
  match c with
  | none => some (1, ds)
  | some sv =>
    match resolveSVal sv ds with
    | none => none
    | some (v, ds') =>
      match countOf v with
      | none => none
      | some n => some (n, ds')

/-- `node_type in relations` -/
def hasRel (d : Def) (ntype : String) : Bool := (lookup ntype d.relations).isSome

/-- `kind=node_type` for a `TypedNode` parent, no kind otherwise -/
def kindOf (typed : Bool) (ntype : String) : Option String := if typed then some ntype else none

/-- `p = f"{prefix}.{i}" if prefix else f"{i}"` -/
def childPrefix (pre : String) (i : Nat) : String :=
  if pre = "" then toString i else pre ++ "." ++ toString i

abbrev Rec := String → String → List Draw → Option (List GNode × List Draw)

/-- `for i in range(count): i += 1 …` — `i` is the current 1-based index, `n` the number of
iterations left; `rec` is the recursive call `_make_tree(parent_type=ntype, prefix=p)`. -/
def childLoop (rec : Rec) (typed : Bool) (ntype : String) (body : Spec) (recurse : Bool) (pre : String) :
    Nat → Nat → List Draw → Option (List GNode × List Draw)
  | _, 0, ds => some ([], ds)
  | i, n + 1, ds =>
    let p := childPrefix pre i
    match resolveDict i p body ds with
    | none => none
    | some (attrs, ds1) =>
      match (if recurse then rec ntype p ds1 else some ([], ds1)) with
      | none => none
      | some (kids, ds2) =>
        match childLoop rec typed ntype body recurse pre (i + 1) n ds2 with
        | none => none
        | some (rest, ds3) => some (.mk ntype (kindOf typed ntype) attrs kids :: rest, ds3)

/-- `for node_type, spec in child_specs.items(): …` -/
def relLoop (rec : Rec) (d : Def) (typed : Bool) (pre : String) :
    List (String × Spec) → List Draw → Option (List GNode × List Draw)
  | [], ds => some ([], ds)
  | (ntype, spec) :: rels, ds =>
    let m := mergeSpecs ntype spec d.types
    match resolveCount (countSpec m) ds with
    | none => none
    | some (cnt, ds1) =>
      match childLoop rec typed ntype (attrSpec m) (hasRel d ntype) pre 1 cnt ds1 with
      | none => none
      | some (g, ds2) =>
        match relLoop rec d typed pre rels ds2 with
        | none => none
        | some (rest, ds3) => some (g ++ rest, ds3)

/-- `_make_tree(parent_type=, prefix=)`: the children created below the parent node.
`none`: KeyError for an unknown parent type, a draw stream that does not fit, a failing
`str.format`, or not enough fuel. -/
def makeTree (d : Def) (typed : Bool) : Nat → Rec
  | 0, _, _, _ => none
  | fuel + 1, ptype, pre, ds =>
    match lookup ptype d.relations with
    | none => none
    | some rels => relLoop (makeTree d typed fuel) d typed pre rels ds

/-- `build_random_tree(tree_class=, structure_def=)`: the top nodes and the unused draws.
`typed` = `tree_class` is `TypedTree` (the system root is a `TypedNode`). -/
def build (d : Def) (typed : Bool) (fuel : Nat) (ds : List Draw) : Option (List GNode × List Draw) :=
  makeTree d typed fuel "__root__" "" ds

end Gen
end Nutree
