/-
Model of `nutree/fs.py`: `FileSystemEntry`, `load_tree_from_fs(path, sort=…)` (the inner
`visit`) and the `FileSystemTree` mappers.

The directory that is scanned is a value `List Dir`: the entries of the top folder in the
order in which `Path.iterdir()` yields them (arbitrary, decided by the OS), sub-directories
nested.  What is outside this model (symlinks, special files that are neither `is_dir()`
nor `is_file()`, permission errors, a directory that changes while it is scanned) is listed
as trusted in harness/props/c19.py.

Python `str` comparison is code-point order; Lean's `String` `<` / `≤` is the lexicographic
order on the code points, so `decide (a.name ≤ b.name)` is the comparison `sorted(…,
key=attrgetter("name"))` uses.  `sorted(dirs, key=itemgetter(0))` compares `Path` objects:
`PurePosixPath.__lt__` compares the lists of path components; two entries of one folder
differ only in the last component, i.e. it is again the comparison of the names.
`sorted` is stable, and so is `List.mergeSort`.
-/
namespace Nutree.Fs

/-- A directory listing as the OS presents it. `entries` is in LISTING order. -/
inductive Dir where
  | file (name : String) (size : Nat) (mtime : Int)
  | dir (name : String) (entries : List Dir)
  deriving Repr, Inhabited

/-- A node of the resulting `FileSystemTree`; the payload is the `FileSystemEntry`
(`name`, `is_dir`, `size`, `mdate`). -/
inductive FNode where
  | node (name : String) (isDir : Bool) (size : Nat) (mtime : Option Int) (kids : List FNode)
  deriving Repr, Inhabited

namespace Dir
def name : Dir → String
  | .file n _ _ => n
  | .dir n _ => n
def isDir : Dir → Bool
  | .file .. => false
  | .dir .. => true
end Dir

namespace FNode
def name : FNode → String | .node n _ _ _ _ => n
def isDir : FNode → Bool | .node _ d _ _ _ => d
def size : FNode → Nat | .node _ _ s _ _ => s
def mtime : FNode → Option Int | .node _ _ _ m _ => m
def kids : FNode → List FNode | .node _ _ _ _ ks => ks
end FNode

/-- `key=attrgetter("name")` / `key=itemgetter(0)` with `<` of `str`: `a` may stay before `b`. -/
def leName (a b : FNode) : Bool := decide (a.name ≤ b.name)

/-- The body of `visit` after the entries of one folder have been turned into nodes:
`sort=True`: the files sorted by name, then the directories sorted by name;
`sort=False`: the listing order.  `srt` is the sorting function (`sorted`). -/
def arrange (srt : List FNode → List FNode) (sort : Bool) (l : List FNode) : List FNode :=
  if sort then srt (l.filter fun k => !k.isDir) ++ srt (l.filter fun k => k.isDir) else l

/- `visit(node, pth)`.  The Python code sorts the `(Path, entry)` pairs and then recurses
into each directory; here every entry is first turned into its node (recursively) and the
nodes are sorted afterwards — the same key, and the recursion is a pure function of the
sub-directory, so the only difference is the order of evaluation (this keeps the recursion
structural, so that the model can be evaluated by the kernel). -/
mutual
/-- One entry: `FileSystemEntry(c.name, size=st_size, mdate=st_mtime)` for a file,
`FileSystemEntry(c.name, is_dir=True)` (size 0, no mdate) + `visit(pn, c)` for a directory. -/
def scanOneWith (srt : List FNode → List FNode) (sort : Bool) : Dir → FNode
  | .file n s m => .node n false s (some m) []
  | .dir n es => .node n true 0 none (arrange srt sort (scanEachWith srt sort es))
/-- `for c in pth.iterdir()`. -/
def scanEachWith (srt : List FNode → List FNode) (sort : Bool) : List Dir → List FNode
  | [] => []
  | d :: ds => scanOneWith srt sort d :: scanEachWith srt sort ds
end

def scanWith (srt : List FNode → List FNode) (sort : Bool) (d : List Dir) : List FNode :=
  arrange srt sort (scanEachWith srt sort d)

/-- `sorted(…, key=name)`: stable merge sort. -/
def sortByName (l : List FNode) : List FNode := l.mergeSort leName

/-- `load_tree_from_fs(path, sort=sort)`: the children of the tree's root. -/
def scan (sort : Bool) (d : List Dir) : List FNode := scanWith sortByName sort d

abbrev scanOne := scanOneWith sortByName
abbrev scanEach := scanEachWith sortByName

/-- A structurally recursive stable sort (insert before the first element that is not
smaller); `Lemmas/FsSort.lean` proves it equal to `sortByName`.  Used to evaluate the model
inside the kernel (`List.mergeSort` is defined by well-founded recursion). -/
def insertByName (a : FNode) : List FNode → List FNode
  | [] => [a]
  | b :: l => if leName a b then a :: b :: l else b :: insertByName a l

def isortByName : List FNode → List FNode
  | [] => []
  | a :: l => insertByName a (isortByName l)

/-! ### `visit`, literally

The same function in the order of evaluation of the Python code: split the listing into
`files` and `dirs`, sort both by name, add the files, then add each directory and recurse into
it.  The recursion goes through the sorted list, so it is not structural; `fuel` bounds the
nesting depth.  `Lemmas/FsVisit.lean` proves `visit sort d = scan sort d`. -/

namespace Dir
def entries : Dir → List Dir
  | .file .. => []
  | .dir _ es => es
end Dir

mutual
def Dir.depth : Dir → Nat
  | .file .. => 0
  | .dir _ es => depthL es + 1
/-- nesting depth of a listing (0 = no sub-directory) -/
def depthL : List Dir → Nat
  | [] => 0
  | d :: ds => max d.depth (depthL ds)
end

/-- `key=attrgetter("name")` / `key=itemgetter(0)` on the entries of one folder. -/
def leDir (a b : Dir) : Bool := decide (a.name ≤ b.name)

/-- `FileSystemEntry(c.name, size=stat.st_size, mdate=stat.st_mtime)` resp.
`FileSystemEntry(c.name, is_dir=True)`, as a node without children yet. -/
def entryNode : Dir → FNode
  | .file n s m => .node n false s (some m) []
  | .dir n _ => .node n true 0 none []

def visitFuel : Nat → Bool → List Dir → List FNode
  | 0, _, _ => []
  | fuel + 1, true, es =>
    let files := es.filter fun c => !c.isDir      -- `files.append(o)` in listing order
    let dirs := es.filter fun c => c.isDir        -- `dirs.append((c, o))`
    (files.mergeSort leDir).map entryNode         -- `for o in sorted(files, key=name): node.add(o)`
      ++ (dirs.mergeSort leDir).map fun c =>      -- `for c, o in sorted(dirs, key=path):`
          .node c.name true 0 none (visitFuel fuel true c.entries)  -- `pn = node.add(o); visit(pn, c)`
  | fuel + 1, false, es =>
    es.map fun c =>                               -- `for c in pth.iterdir():`
      if c.isDir then .node c.name true 0 none (visitFuel fuel false c.entries)
      else entryNode c

/-- `visit(tree._root, path)` -/
def visit (sort : Bool) (es : List Dir) : List FNode := visitFuel (depthL es + 1) sort es

/-! ### The `FileSystemTree` mappers -/

/-- JSON scalar values that occur in a node record. -/
inductive Val where
  | str (s : String)
  | nat (n : Nat)
  | int (i : Int)
  | bool (b : Bool)
  | null
  deriving Repr, DecidableEq, Inhabited

abbrev Rec := List (String × Val)

/-- The payload of a node: a `FileSystemEntry`. -/
structure Entry where
  name : String
  isDir : Bool
  size : Nat
  mtime : Option Int
  deriving Repr, DecidableEq, Inhabited

/-- `FileSystemEntry.__init__`: a directory has size 0 and no mdate. -/
def Entry.mk' (name : String) (isDir : Bool) (size : Nat) (mtime : Option Int) : Entry :=
  if isDir then ⟨name, true, 0, none⟩ else ⟨name, false, size, mtime⟩

def FNode.entry : FNode → Entry
  | .node n d s m _ => Entry.mk' n d s m

/-- `FileSystemTree.serialize_mapper` (the incoming `data` is `{}`: `_make_list_entry` adds
nothing for an object whose data_id is its hash). -/
def serFS : FNode → Rec
  | .node n true _ _ _ => [("n", .str n), ("d", .bool true)]
  | .node n false s m _ =>
    [("n", .str n), ("s", .nat s), ("m", match m with | some i => .int i | none => .null)]

/-- `FileSystemTree.deserialize_mapper`; `none` = the Python code raises (KeyError /
a value of a type the entry cannot hold). -/
def deserFS (r : Rec) : Option Entry :=
  if (r.lookup "d").isSome then
    match r.lookup "n" with
    | some (.str n) => some ⟨n, true, 0, none⟩
    | _ => none
  else
    match r.lookup "n", r.lookup "s", r.lookup "m" with
    | some (.str n), some (.nat s), some (.int i) => some ⟨n, false, s, some i⟩
    | some (.str n), some (.nat s), some .null => some ⟨n, false, s, none⟩
    | _, _, _ => none

/-- `data[new] = data.pop(old)` on an insertion-ordered dict. -/
def renameKey (r : Rec) (old new : String) : Rec :=
  match r.lookup old with
  | none => r
  | some v =>
    let r' := r.filter fun e => e.1 != old
    if (r'.lookup new).isSome then r'.map fun e => if e.1 == new then (new, v) else e
    else r' ++ [(new, v)]

/-- `_compress_entry(data, key_map, {})`: every key of the record that is a key of the map is
replaced by its short form (keys visited in the original order). -/
def compressKeys (keyMap : List (String × String)) (r : Rec) : Rec :=
  (r.map (·.1)).foldl (fun acc k => match keyMap.lookup k with
    | some short => renameKey acc k short
    | none => acc) r

/-- `_uncompress_entry(data, inverse_key_map, {})` with `inverse_key_map = {v: k}` (a later
entry of the key map wins in the dict comprehension, hence `reverse` for `lookup`). -/
def uncompressKeys (keyMap : List (String × String)) (r : Rec) : Rec :=
  compressKeys (keyMap.reverse.map fun e => (e.2, e.1)) r

/-- Keys that `_make_list_entry` / the typed tree put into a record themselves. -/
def reservedKeys : List String := ["data_id", "str", "kind"]

end Nutree.Fs
