/-
  Nutree.Model.Rel — operational model of the relationship accessors of `Node`
  (node.py: parent, up, children, get_siblings, first/last/prev/next_sibling, get_index,
  depth/calc_depth, calc_height, count_descendants, get_top, is_descendant_of,
  is_ancestor_of, get_common_ancestor, get_parent_list, get_path, is_top/is_leaf/…).

  The implementation walks the stored `_parent` links.  In the model `_parent` of the node
  with identity `id` is `findParent id root`: the node of the tree that has a child with
  that identity.  (That the stored link equals this node is part of C01's well-formedness
  and is observed by the correspondence.)
-/
import Nutree.Model.Basic
import Nutree.Model.Iter
namespace Nutree
open T

mutual
/-- `_parent` of node `id` within the tree rooted at the given node. -/
def findParent (id : NodeId) : T → Option T
  | .node i ks => if ks.any (fun k => k.id == id) then some (.node i ks) else findParentL id ks
def findParentL (id : NodeId) : List T → Option T
  | [] => none
  | t :: ts => match findParent id t with
    | some p => some p
    | none => findParentL id ts
end

/-- The `_parent` chain of node `id`: parent, grand-parent, …, system root
(`while pe is not None: … pe = pe._parent`), with fuel. -/
def parentChain (root : T) : Nat → NodeId → List T
  | 0, _ => []
  | f + 1, nid => match findParent nid root with
    | none => []
    | some p => p :: parentChain root f p.id

/-- All proper ancestors including the system root, nearest first. -/
def chain (root : T) (self : T) : List T := parentChain root root.size self.id

/-- `Node.parent`: `p = self._parent; return p if p._parent else None`. -/
def parentOf (root self : T) : Option T :=
  match chain root self with
  | p :: _ :: _ => some p        -- p has a parent itself
  | _ => none

/-- `Node.up(level)`; `none` = ValueError. -/
def up (root self : T) (level : Int) : Option T :=
  if level < 1 then none else (chain root self)[(level - 1).toNat]?

/-- `Node.calc_depth`: number of `_parent` steps until `None`. -/
def calcDepth (root self : T) : Nat := (chain root self).length

mutual
/-- The recursive helper `_ch(n, h)` of `calc_height` with its `nonlocal height` accumulator. -/
def chT (h : Nat) (acc : Nat) : T → Nat
  | .node _ ks => if ks.isEmpty then (if h > acc then h else acc) else chL (h + 1) acc ks
def chL (h : Nat) (acc : Nat) : List T → Nat
  | [] => acc
  | t :: ts => chL h (chT h acc t) ts
end

/-- `Node.calc_height`. -/
def calcHeight (self : T) : Nat := chT 0 0 self

/-- `Node.count_descendants(leaves_only=)`: counts over `self.iterator()`. -/
def countDescendants (self : T) (leavesOnly : Bool) : Nat :=
  ((iterPre self).filter fun n => !leavesOnly || n.kids.isEmpty).length

/-- `self._parent._children`. -/
def siblingsAll (root self : T) : List T :=
  match chain root self with
  | p :: _ => p.kids
  | [] => []

/-- `get_siblings(add_self=)`: `[n for n in … if n is not self]`. -/
def getSiblings (root self : T) (addSelf : Bool) : List T :=
  if addSelf then siblingsAll root self else (siblingsAll root self).filter fun n => n.id != self.id

def firstSibling (root self : T) : Option T := (siblingsAll root self).head?
def lastSibling (root self : T) : Option T := (siblingsAll root self).getLast?

/-- `is_first_sibling`: `self is self._parent._children[0]`. -/
def isFirstSibling (root self : T) : Bool :=
  match (siblingsAll root self).head? with
  | some f => f.id == self.id
  | none => false

def isLastSibling (root self : T) : Bool :=
  match (siblingsAll root self).getLast? with
  | some f => f.id == self.id
  | none => false

/-- Position of `self` in the sibling list *by identity* (`get_index`; see DESIGN.md D8:
the pinned commit used `list.index`, i.e. `==`, which is wrong for equal-comparing
siblings and was repaired). -/
def getIndex (root self : T) : Option Nat :=
  let sibs := siblingsAll root self
  let i := sibs.findIdx fun n => n.id == self.id
  if i < sibs.length then some i else none

def prevSibling (root self : T) : Option T :=
  if isFirstSibling root self then none
  else match getIndex root self with
    | some i => (siblingsAll root self)[i - 1]?
    | none => none

def nextSibling (root self : T) : Option T :=
  if isLastSibling root self then none
  else match getIndex root self with
    | some i => (siblingsAll root self)[i + 1]?
    | none => none

/-- `is_top`: `self._parent._parent is None`. -/
def isTop (root self : T) : Bool := (chain root self).length == 1

/-- `get_parent_list(add_self=, bottom_up=)`: ancestors below the system root. -/
def getParentList (root self : T) (addSelf bottomUp : Bool) : List T :=
  let up := ((if addSelf then [self] else []) ++ chain root self).dropLast
  if bottomUp then up else up.reverse

/-- `get_top`: `while root._parent._parent: root = root._parent`. -/
def getTop (root self : T) : Option T := (getParentList root self true true).getLast?

/-- `is_descendant_of(other)`: `other` occurs (by identity) among the proper ancestors
below the system root. -/
def isDescendantOf (root self other : T) : Bool :=
  (getParentList root self false true).any fun p => p.id == other.id

def isAncestorOf (root self other : T) : Bool := isDescendantOf root other self

/-- `get_common_ancestor(other)`: the first node of `self`'s bottom-up list (self included)
whose node id is in `other`'s list (other included). -/
def getCommonAncestor (root self other : T) : Option T :=
  let os := (getParentList root other true false).map T.id
  (getParentList root self true true).find? fun p => os.contains p.id

/-- `get_path()` with the default `repr="{node.name}"`, `separator="/"`. -/
def getPath (root self : T) (addSelf : Bool) : String :=
  "/" ++ "/".intercalate ((getParentList root self addSelf false).map T.name)

end Nutree
