/-
  Nutree.Model.Serial — operational model of the native file format
  (node.py `_make_list_entry`, `to_list_iter`, `_compress_entry`; tree.py `save` (header),
  `_uncompress_entry`, `_from_list`, `load`; typed_tree.py `_make_list_entry`, `save`,
  `_from_list`, `deserialize_mapper`) and of the nested dict form (`to_dict`,
  `to_dict_list`, `from_dict`).

  The model starts at the JSON *value* (`JVal`); json.dump/json.load, zip streams and files
  are the identity on values and are exercised for real by the correspondence (trusted base).
  User mappers are parameters: `ser` adds fields to a node's dict, `deser` turns a dict into
  a data object.
-/
import Nutree.Model.Ops
import Nutree.Generated.Tables
namespace Nutree
open T

inductive JVal where
  | null
  | bool (b : Bool)
  | num (i : Int)
  | str (s : String)
  | arr (l : List JVal)
  | obj (l : List (String × JVal))
deriving Repr, Inhabited

namespace JVal
mutual
def beq : JVal → JVal → Bool
  | .null, .null => true
  | .bool a, .bool b => a == b
  | .num a, .num b => a == b
  | .str a, .str b => a == b
  | .arr a, .arr b => beqL a b
  | .obj a, .obj b => beqO a b
  | _, _ => false
def beqL : List JVal → List JVal → Bool
  | [], [] => true
  | a :: as, b :: bs => beq a b && beqL as bs
  | _, _ => false
def beqO : List (String × JVal) → List (String × JVal) → Bool
  | [], [] => true
  | (k, a) :: as, (l, b) :: bs => k == l && beq a b && beqO as bs
  | _, _ => false
end
instance : BEq JVal := ⟨beq⟩
end JVal

abbrev Fields := List (String × JVal)

def didJ : DataId → JVal
  | .int i => .num i
  | .str s => .str s

def jDid : JVal → Option DataId
  | .num i => some (.int i)
  | .str s => some (.str s)
  | .bool b => some (.int (if b then 1 else 0))   -- `True == 1`, `hash(True) == 1`: the same dictionary key
  | _ => none

/-- a `data_id` argument that cannot be a dictionary key (JSON list / object): TypeError in `_register`. -/
def didUnhashable (d : List (String × JVal)) : Bool :=
  match d.lookup "data_id" with
  | some (.arr _) | some (.obj _) => true
  | _ => false

/-- dict assignment `d[k] = v` (overwrite keeps the position, a new key is appended). -/
def setField (d : Fields) (k : String) (v : JVal) : Fields :=
  if d.any (·.1 == k) then d.map fun e => if e.1 == k then (k, v) else e else d ++ [(k, v)]

/-- `dict.update`. -/
def updateFields (d : Fields) (u : Fields) : Fields := u.foldl (fun acc e => setField acc e.1 e.2) d

namespace Ser

/-- one element of the `nodes` list: `(parent_idx, payload)`. -/
inductive Payload where
  | str (s : String)              -- plain string node without custom id
  | ref (idx : Nat)               -- repeated occurrence: index of the first one
  | dict (d : Fields)
deriving Repr, Inhabited

structure Opts where
  keyMap : List (String × String) := []
  valueMap : List (String × List JVal) := []
  fileMeta : Fields := []
deriving Repr, Inhabited

/-- `Node._make_list_entry` / `TypedNode._make_list_entry`. -/
def makeEntry (typed : Bool) (n : T) : Payload :=
  let custom := n.did != n.data.hid
  let idf : Fields := if custom then [("data_id", didJ n.did)] else []
  if typed then
    let base : Fields := if n.data.isStr then [("str", .str n.name)] ++ idf else idf
    .dict (match n.kind with | some k => base ++ [("kind", .str k)] | none => base)
  else if n.data.isStr then
    (if custom then .dict ([("str", .str n.name)] ++ idf) else .str n.name)
  else .dict idf

/-- `_compress_entry`: shorten keys by `key_map`, replace values by their index in `value_map[key]`
(keyed by the *long* name). `none` = KeyError (a value that is not in its list). Assumes the maps
are valid (no short key equals another key of the entry). -/
def compress (o : Opts) (d : Fields) : Option Fields :=
  d.mapM fun (k, v) =>
    let short := (o.keyMap.lookup k).getD k
    match o.valueMap.lookup k with
    | none => some (short, v)
    | some vals =>
      let i := vals.findIdx (· == v)
      if i < vals.length then some (short, .num i) else none

/-- pre-order enumeration with 1-based index and the index of the parent's entry. -/
def enumerate : List T → (parentIdx : Nat) → (next : Nat) → List (Nat × Nat × T) × Nat
  | [], _, next => ([], next)
  | .node i ks :: rest, p, next =>
    let below := enumerate ks next (next + 1)
    let after := enumerate rest p below.2
    ((next, p, T.node i ks) :: below.1 ++ after.1, after.2)

/-- `to_list_iter`: `ser n d` is the mapper (`none` = returns None, the dict is used as is);
`isClone n` = `node.is_clone()`.  `none` = KeyError from a bad value map. -/
def toList (typed : Bool) (o : Opts) (ser : T → Fields → Option Fields) (isClone : T → Bool) (tops : List T) :
    Option (List (Nat × Payload)) :=
  let rows := (enumerate tops 0 1).1
  let step := fun (acc : Option (List (Nat × Payload) × List (DataId × Nat × Option String))) (r : Nat × Nat × T) =>
    match acc with
    | none => none
    | some (out, cmap) =>
      let (idx, pidx, n) := r
      let hit := cmap.lookup n.did
      match hit with
      | some (cidx, ckind) =>
        if n.kind == ckind then some (out ++ [(pidx, Payload.ref cidx)], cmap)
        else
          -- same data, other kind: full entry (the map keeps the first occurrence)
          (match makeEntry typed n with
           | .dict d => (compress o ((ser n d).getD d)).map fun d' => (out ++ [(pidx, Payload.dict d')], cmap)
           | e => some (out ++ [(pidx, e)], cmap))
      | none =>
        let cmap' := if isClone n then cmap ++ [(n.did, idx, n.kind)] else cmap
        (match makeEntry typed n with
         | .dict d => (compress o ((ser n d).getD d)).map fun d' => (out ++ [(pidx, Payload.dict d')], cmap')
         | e => some (out ++ [(pidx, e)], cmap'))
  (rows.foldl step (some ([], []))).map (·.1)

def payloadJ : Payload → JVal
  | .str s => .str s
  | .ref i => .num i
  | .dict d => .obj d

/-- the `meta` header written by `save`. -/
def header (o : Opts) : Fields :=
  let h : Fields := [("$generator", .str ("nutree/" ++ Generated.version)), ("$format_version", .str Generated.fileFormatVersion)]
  let h := if o.keyMap.isEmpty then h else h ++ [("$key_map", .obj (o.keyMap.map fun (k, v) => (k, JVal.str v)))]
  let h := if o.valueMap.isEmpty then h else h ++ [("$value_map", .obj (o.valueMap.map fun (k, v) => (k, JVal.arr v)))]
  updateFields h o.fileMeta

/-- distinct kinds in pre-order (`Counter` keys), the default `kind` value map of `TypedTree.save`. -/
def kindsOf (tops : List T) : List JVal :=
  ((flatL tops).filterMap T.kind).eraseDups.map JVal.str

/-- the document written by `save` (`none` = KeyError). -/
def saveJ (typed : Bool) (o : Opts) (ser : T → Fields → Option Fields) (tops : List T) : Option JVal :=
  let isClone := fun (n : T) => ((flatL tops).filter fun m => m.did == n.did).length > 1
  (toList typed o ser isClone tops).map fun rows =>
    .obj [("meta", .obj (header o)), ("nodes", .arr (rows.map fun (p, e) => JVal.arr [.num p, payloadJ e]))]

/-! ### load -/

def lookupF (d : Fields) (k : String) : Option JVal := d.lookup k

/-- `"nutree/" in str(generator)`. -/
def hasNutree (s : String) : Bool := (s.splitOn "nutree/").length > 1

/-- Python `vals[i]` for an `int` index: a negative index counts from the end; `none` = IndexError. -/
def pyIndex {α} (vals : List α) (i : Int) : Option α :=
  if i < 0 then (if (vals.length : Int) + i < 0 then none else vals[((vals.length : Int) + i).toNat]?)
  else vals[i.toNat]?

/-- `Tree._uncompress_entry` (`none` = IndexError: a number that is not an index of its value list). -/
def uncompress (inverseKeyMap : List (String × String)) (valueMap : List (String × List JVal)) (d : Fields) : Option Fields :=
  d.mapM fun (k, v) =>
    let long := (inverseKeyMap.lookup k).getD k
    match v, valueMap.lookup long with
    | .num i, some vals => (pyIndex vals i).map fun x => (long, x)
    | .bool b, some vals => (vals[if b then 1 else 0]?).map fun x => (long, x)   -- `isinstance(True, int)`
    | _, _ => some (long, v)

/-- result of the deserialisation mapper. -/
inductive DRes where
  | atom (a : Atom)
  | notImplemented
  | error

/-- state of the loop of `_from_list`: the tree, the next fresh node identity, `node_idx_map`
(entry index ↦ node identity; index 0 is the system root). -/
abbrev FState := Tree × Nat × List (Nat × NodeId)

/-- the body of the loop of `_from_list` (plain and typed) for an entry whose payload is a `str`,
a non-negative `int` or a `dict`, once `parent = node_idx_map[parent_idx]` has been found:
`strAtom s` finds the data object for a plain string, `deser d` is `call_mapper(mapper, parent, d)`.

A reference that resolves to the system root (index 0, or JSON `false`) makes `add_child` call
`child.__class__(data, parent=…)` = `_SystemRootNode(data, parent=…)`, whose constructor only takes
the tree: TypeError. -/
def fromListBody (typed : Bool) (strAtom : String → Atom) (deser : Fields → DRes)
    (t : Tree) (next : Nat) (idxMap : List (Nat × NodeId)) (parent : NodeId) (pl : Payload) :
    Except Err FState :=
  let idx := idxMap.length        -- the entry being read has index = number of entries so far (root is 0)
  match pl with
  | .str s =>
    (t.addData next parent (strAtom s) .none none (if typed then some "child" else none)).map fun t1 =>
      (t1, next + 1, idxMap ++ [(idx, next)])
  | .ref k =>
    match idxMap.lookup k with
    | none => .error .key
    | some first =>
      if first = 0 then .error .type
      else
      match findT first t.root with
      | none => .error .key
      | some fc =>
        let (t1, n1, e) := t.addNode next parent fc true (t.parentId first) .none none (some fc.did) (if typed then fc.kind else none)
        match e with
        | some e => .error e
        | none => .ok (t1, n1, idxMap ++ [(idx, next)])
  | .dict d =>
    let did := (lookupF d "data_id").bind jDid
    let kind := if typed then some (match lookupF d "kind" with | some (.str k) => k | _ => "child") else none
    match deser d with
    | .notImplemented => .error .notImplemented
    | .error => .error .callback
    | .atom a =>
      if didUnhashable d then .error .type
      else (t.addData next parent a .none did kind).map fun t1 => (t1, next + 1, idxMap ++ [(idx, next)])

/-- one iteration of `_from_list` on a well-shaped entry `(parent_idx, payload)`. -/
def fromListStep (typed : Bool) (strAtom : String → Atom) (deser : Fields → DRes)
    (acc : Except Err FState) (r : Nat × Payload) : Except Err FState :=
  match acc with
  | .error e => .error e
  | .ok (t, next, idxMap) =>
    match idxMap.lookup r.1 with
    | none => .error .key
    | some parent => fromListBody typed strAtom deser t next idxMap parent r.2

/-- the state `_from_list` starts with: an empty tree of the class, `node_idx_map = {0: root}`. -/
def fromListInit (typed : Bool) : Except Err FState := .ok ({ typed := typed }, 1, [(0, 0)])

/-- the loop of `_from_list` on well-shaped entries: the state after the last entry. -/
def fromListState (typed : Bool) (strAtom : String → Atom) (deser : Fields → DRes) (rows : List (Nat × Payload)) :
    Except Err FState :=
  rows.foldl (fromListStep typed strAtom deser) (fromListInit typed)

/-- `_from_list` on well-shaped entries (what `to_list_iter` writes). -/
def fromList (typed : Bool) (strAtom : String → Atom) (deser : Fields → DRes) (rows : List (Nat × Payload)) :
    Except Err Tree :=
  (fromListState typed strAtom deser rows).map (·.1)

/-! #### arbitrary entries

`json.load` may hand anything to `_from_list`; the two components of an entry as the loop body
uses them: -/

/-- `parent_idx` as a key of `node_idx_map`. -/
inductive PKey where
  | idx (n : Nat)        -- a non-negative int (`true`/`false` are the ints 1/0)
  | absent               -- hashable but never a key (negative int, `null`, str): KeyError
  | unhashable           -- list / dict: TypeError
deriving Repr, Inhabited

/-- the second component of an entry. -/
inductive Cell where
  | pl (p : Payload)     -- str, non-negative int (or bool), dict
  | negRef               -- a negative int: `node_idx_map[data]` → KeyError
  | notDict              -- `null` / list: `assert isinstance(data, dict)` (Tree), `data.get` (TypedTree)
deriving Repr, Inhabited

/-- one iteration of `_from_list` on an arbitrary entry: the parent lookup comes first, then the
type dispatch on the payload. -/
def fromListStepG (typed : Bool) (strAtom : String → Atom) (deser : Fields → DRes)
    (acc : Except Err FState) (r : PKey × Cell) : Except Err FState :=
  match acc with
  | .error e => .error e
  | .ok (t, next, idxMap) =>
    match r.1 with
    | .unhashable => .error .type
    | .absent => .error .key
    | .idx p =>
      match idxMap.lookup p with
      | none => .error .key
      | some parent =>
        match r.2 with
        | .negRef => .error .key
        | .notDict => .error (if typed then .attribute else .assertion)
        | .pl pl => fromListBody typed strAtom deser t next idxMap parent pl

/-- the loop of `_from_list` on arbitrary entries: the state after the last entry. -/
def fromListStateG (typed : Bool) (strAtom : String → Atom) (deser : Fields → DRes) (rows : List (PKey × Cell)) :
    Except Err FState :=
  rows.foldl (fromListStepG typed strAtom deser) (fromListInit typed)

/-- `_from_list` on arbitrary entries. -/
def fromListG (typed : Bool) (strAtom : String → Atom) (deser : Fields → DRes) (rows : List (PKey × Cell)) :
    Except Err Tree :=
  (fromListStateG typed strAtom deser rows).map (·.1)

/-- a well-shaped row `(parent index, payload)` as an arbitrary entry. -/
def liftRow (r : Nat × Payload) : PKey × Cell := (.idx r.1, .pl r.2)

def payloadOfJ : JVal → Option Payload
  | .str s => some (.str s)
  | .num i => if i < 0 then none else some (.ref i.toNat)
  | .obj d => some (.dict d)
  | _ => none

/-- `for _parent_idx, data in obj["nodes"]`: unpacking one element into two values.  A list of
another length, a string of length ≠ 2, an object with ≠ 2 keys: ValueError; a string of length 2
unpacks into its characters and an object with two keys into the keys; anything else is not
iterable: TypeError. -/
def unpackEntry : JVal → Except Err (JVal × JVal)
  | .arr [a, b] => .ok (a, b)
  | .arr _ => .error .value
  | .str s => match s.toList with
    | [a, b] => .ok (.str (String.singleton a), .str (String.singleton b))
    | _ => .error .value
  | .obj [(k1, _), (k2, _)] => .ok (.str k1, .str k2)
  | .obj _ => .error .value
  | _ => .error .type

def pkeyOfJ : JVal → PKey
  | .num i => if i < 0 then .absent else .idx i.toNat
  | .bool b => .idx (if b then 1 else 0)
  | .null | .str _ => .absent
  | .arr _ | .obj _ => .unhashable

/-- the payload as `_from_list` will see it; a dict is un-compressed first (`none` = IndexError). -/
def cellOfJ (km : List (String × String)) (vm : List (String × List JVal)) : JVal → Option Cell
  | .str s => some (.pl (.str s))
  | .num i => some (if i < 0 then .negRef else .pl (.ref i.toNat))
  | .bool b => some (.pl (.ref (if b then 1 else 0)))
  | .obj d => (uncompress km vm d).map fun d' => .pl (.dict d')
  | .null | .arr _ => some .notDict

/-- the first loop of `load` over `obj["nodes"]` (unpack, un-compress dict payloads), entry by
entry; the first failure is raised. -/
def decodeNodes (km : List (String × String)) (vm : List (String × List JVal)) :
    List JVal → Except Err (List (PKey × Cell))
  | [] => .ok []
  | e :: es =>
    match unpackEntry e with
    | .error err => .error err
    | .ok (a, b) =>
      match cellOfJ km vm b with
      | none => .error .index
      | some c =>
        match decodeNodes km vm es with
        | .error err => .error err
        | .ok rs => .ok ((pkeyOfJ a, c) :: rs)

/-- the inverse key map `load` builds from the header (`meta["$key_map"]`, short → long). -/
def loadKm (hdr : Fields) : List (String × String) :=
  match lookupF hdr "$key_map" with
  | some (.obj l) => l.filterMap fun (k, v) => match v with | .str s => some (s, k) | _ => none
  | _ => []

/-- the value map `load` reads from the header. -/
def loadVm (hdr : Fields) : List (String × List JVal) :=
  match lookupF hdr "$value_map" with
  | some (.obj l) => l.filterMap fun (k, v) => match v with | .arr a => some (k, a) | _ => none
  | _ => []

/-- `"$generator" not in obj["meta"] or "nutree/" not in str(obj["meta"]["$generator"])` when `"meta"` is not a JSON
object: `null`, a number or a bool is not iterable (TypeError); a list / string is searched — when it contains
`"$generator"` the subscript `obj["meta"]["$generator"]` raises TypeError, otherwise the format is refused. -/
def badMetaErr : JVal → Err
  | .null => .type
  | .bool _ => .type
  | .num _ => .type
  | .arr l => if l.any (fun x => match x with | .str s => s == "$generator" | _ => false) then .type else .runtime
  | .str s => if (s.splitOn "$generator").length > 1 then .type else .runtime
  | .obj _ => .runtime

/-- `"$generator" in meta and "nutree/" in str(meta["$generator"])` for a JSON object `meta`. -/
def genOk (hdr : Fields) : Bool :=
  match lookupF hdr "$generator" with
  | some (.str s) => hasNutree s
  | _ => false

/-- `"nodes"` is present but not a JSON array (the header was accepted): `for _parent_idx, data in obj["nodes"]`
over `null` / number / bool is a TypeError; over a string it unpacks one-character strings (ValueError) unless the
string is empty; over an object it unpacks the keys — a key that is not two characters long is a ValueError,
otherwise `_from_list` looks the first character up as a parent index (KeyError); empty → the empty tree. -/
def oddNodes (typed : Bool) (strAtom : String → Atom) (deser : Fields → DRes) (hdr : Fields) : JVal → Except Err (Tree × Fields)
  | .null => .error .type
  | .bool _ => .error .type
  | .num _ => .error .type
  | .str s => if s.isEmpty then (fromListG typed strAtom deser []).map fun t => (t, hdr) else .error .value
  | .obj l =>
    if l.isEmpty then (fromListG typed strAtom deser []).map fun t => (t, hdr)
    else if l.any (fun e => e.1.length != 2) then .error .value else .error .key
  | .arr _ => .error .other     -- not reached: arrays take the regular path

/-- `Tree.load` on a JSON value: header check, `file_meta`, un-compression, `_from_list`.
(Header values of unexpected types — a `meta` that is not an object, maps that are not objects of
strings / lists — are outside the model: they are treated as missing.) -/
def loadJ (typed : Bool) (strAtom : String → Atom) (deser : Fields → DRes) (doc : JVal) : Except Err (Tree × Fields) :=
  match doc with
  | .obj top =>
    match lookupF top "meta", lookupF top "nodes" with
    | some (.obj hdr), some (.arr nodes) =>
      match lookupF hdr "$generator" with
      | some g =>
        let gs := match g with | .str s => s | _ => ""
        if !hasNutree gs then .error .runtime
        else
          match decodeNodes (loadKm hdr) (loadVm hdr) nodes with
          | .error e => .error e
          | .ok rows => (fromListG typed strAtom deser rows).map fun t => (t, hdr)
      | none => .error .runtime
    | some (.obj hdr), some nd =>
      -- "nodes" is present but not a JSON array: the header checks come first, then the first loop iterates it
      if genOk hdr then oddNodes typed strAtom deser hdr nd else .error .runtime
    | some m, some _ => .error (badMetaErr m)
    | _, _ => .error .runtime
  | _ => .error .runtime

/-! ### the nested list-of-dicts form -/

mutual
/-- `Node.to_dict(mapper=)`. -/
def toDict (ser : T → Fields → Option Fields) : T → JVal
  | .node i ks =>
    let n := T.node i ks
    let base : Fields := [("data", .str i.data.name)] ++ (if i.did != i.data.hid then [("data_id", didJ i.did)] else [])
    let d := (ser n base).getD base
    .obj (if ks.isEmpty then d else setField d "children" (.arr (toDictL ser ks)))
def toDictL (ser : T → Fields → Option Fields) : List T → List JVal
  | [] => []
  | t :: ts => toDict ser t :: toDictL ser ts
end

/-- CPython's `hash(i)` for an `int`: sign · (|i| mod (2^61 − 1)), and −1 is replaced by −2. -/
def pyHashInt (i : Int) : Int :=
  let m : Int := 2305843009213693951
  let h := if i < 0 then -((-i) % m) else i % m
  if h = -1 then -2 else h

/-- `item["data"]` used as the data object as it is (no mapper): a string is looked up with
`strAtom`; a number, `true`/`false`, `null` are the Python objects `int`, `bool`, `None` (hashable:
they become data objects; `hash(None)` is the constant of CPython ≥ 3.12); a list / dict is
unhashable (`none`, see `itemData`). -/
def scalarAtom (strAtom : String → Atom) : JVal → Option Atom
  | .str s => some (strAtom s)
  | .num i =>
    let c := 800000 + 2 * (if i < 0 then 2 * (-i).toNat - 1 else 2 * i.toNat)
    some { obj := c, eqc := c, hid := .int (pyHashInt i), truthy := i != 0, isStr := false, name := toString i }
  | .bool b =>
    let c := 800000 + 2 * (if b then 2 else 0)
    some { obj := c + 1, eqc := c, hid := .int (if b then 1 else 0), truthy := b, isStr := false,
           name := if b then "True" else "False" }
  | .null => some { obj := 799999, eqc := 799999, hid := .int 4238894112, truthy := false, isStr := false, name := "None" }
  | .arr _ | .obj _ => none

/-- a JSON list / dict used as data object (only possible under an explicit `data_id`); its
`str()` is not modelled. -/
def compoundAtom (v : JVal) : Atom :=
  let nonEmpty := match v with | .arr l => !l.isEmpty | .obj o => !o.isEmpty | _ => true
  { obj := 799998, eqc := 799998, hid := .int 0, truthy := nonEmpty, isStr := false, name := "<json>" }

/-- `child_items = item.get("children"); if child_items: child.from_dict(child_items)`: a falsy
value is skipped; a truthy value that is not a list is iterated (number / `true`: not iterable; a
string yields characters and a dict its keys, and `"x"["data"]` fails): TypeError (no mapper). -/
def childItems (d : Fields) : Except Err (List JVal) :=
  match lookupF d "children" with
  | none | some .null => .ok []
  | some (.arr l) => .ok l
  | some (.bool b) => if b then .error .type else .ok []
  | some (.num i) => if i = 0 then .ok [] else .error .type
  | some (.str s) => if s = "" then .ok [] else .error .type
  | some (.obj o) => if o.isEmpty then .ok [] else .error .type

/-- the data object of an item: `call_mapper(mapper, self, item)` resp. `item["data"]`. -/
def itemData (strAtom : String → Atom) (deser : Option (Fields → DRes)) (d : Fields) : Except Err Atom :=
  match deser with
  | some m => (match m d with
    | .atom a => .ok a
    | .notImplemented => .error .notImplemented
    | .error => .error .callback)
  | none => match lookupF d "data" with
    | none => .error .key                         -- `item["data"]`
    | some v => match scalarAtom strAtom v with
      | some a => .ok a
      | none =>
        -- a list / dict as data object: unhashable, so `calc_data_id` raises TypeError — unless an
        -- explicit `data_id` is given (then the data is never hashed)
        if ((lookupF d "data_id").bind jDid).isSome then .ok (compoundAtom v) else .error .type

/-- `Node.from_dict` (the loop; the `assert not self._children` at the entry is `fromDict`), with
fuel for the nesting depth: `some deser` = a mapper is given.  The key `node_id` is not modelled. -/
def fromDictL (strAtom : String → Atom) (deser : Option (Fields → DRes)) :
    Nat → List JVal → Tree → NodeId → NodeId → Except Err (Tree × NodeId)
  | 0, _, t, _, next => .ok (t, next)
  | _, [], t, _, next => .ok (t, next)
  | f + 1, item :: rest, t, parent, next =>
    match item with
    | .obj d =>
      match itemData strAtom deser d with
      | .error e => .error e
      | .ok a =>
        if didUnhashable d then .error .type
        else
        match t.addData next parent a .none ((lookupF d "data_id").bind jDid) none with
        | .error e => .error e
        | .ok t1 =>
          match childItems d with
          | .error e => .error e
          | .ok kids =>
            match fromDictL strAtom deser f kids t1 next (next + 1) with
            | .error e => .error e
            | .ok (t2, n2) => fromDictL strAtom deser (f + 1) rest t2 parent n2
    | _ => .error .type

/-- `node.from_dict(obj)` on the node `parent` of an existing tree: `assert not self._children`,
then the loop. -/
def fromDict (strAtom : String → Atom) (deser : Option (Fields → DRes)) (fuel : Nat) (items : List JVal)
    (t : Tree) (parent next : NodeId) : Except Err (Tree × NodeId) :=
  match findT parent t.root with
  | none => .error .other
  | some p => if p.kids.isEmpty then fromDictL strAtom deser fuel items t parent next else .error .assertion

end Ser
end Nutree
