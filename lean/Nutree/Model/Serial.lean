/-
  Nutree.Model.Serial — operational model of the native file format
  (node.py `_make_list_entry`, `to_list_iter`, `_compress_entry`; tree.py `save` (header),
  `_uncompress_entry`, `_from_list`, `load`; typed_tree.py `_make_list_entry`, `save`,
  `_from_list`, `deserialize_mapper`) and of the nested dict form (`to_dict`,
  `to_dict_list`, `from_dict`).

  The model starts at the JSON *value* (`JVal`); json.dump/json.load, zip streams and files
  are the identity on values and are exercised for real by the correspondence (trusted base).
  User mappers are parameters: `ser` adds fields to a node's dict, `deser` turns a dict into
  a data object.
-/
import Nutree.Model.Ops
import Nutree.Generated.Tables
namespace Nutree
open T

inductive JVal where
  | null
  | bool (b : Bool)
  | num (i : Int)
  | str (s : String)
  | arr (l : List JVal)
  | obj (l : List (String × JVal))
deriving Repr, Inhabited

namespace JVal
mutual
def beq : JVal → JVal → Bool
  | .null, .null => true
  | .bool a, .bool b => a == b
  | .num a, .num b => a == b
  | .str a, .str b => a == b
  | .arr a, .arr b => beqL a b
  | .obj a, .obj b => beqO a b
  | _, _ => false
def beqL : List JVal → List JVal → Bool
  | [], [] => true
  | a :: as, b :: bs => beq a b && beqL as bs
  | _, _ => false
def beqO : List (String × JVal) → List (String × JVal) → Bool
  | [], [] => true
  | (k, a) :: as, (l, b) :: bs => k == l && beq a b && beqO as bs
  | _, _ => false
end
instance : BEq JVal := ⟨beq⟩
end JVal

abbrev Fields := List (String × JVal)

def didJ : DataId → JVal
  | .int i => .num i
  | .str s => .str s

def jDid : JVal → Option DataId
  | .num i => some (.int i)
  | .str s => some (.str s)
  | _ => none

/-- dict assignment `d[k] = v` (overwrite keeps the position, a new key is appended). -/
def setField (d : Fields) (k : String) (v : JVal) : Fields :=
  if d.any (·.1 == k) then d.map fun e => if e.1 == k then (k, v) else e else d ++ [(k, v)]

/-- `dict.update`. -/
def updateFields (d : Fields) (u : Fields) : Fields := u.foldl (fun acc e => setField acc e.1 e.2) d

namespace Ser

/-- one element of the `nodes` list: `(parent_idx, payload)`. -/
inductive Payload where
  | str (s : String)              -- plain string node without custom id
  | ref (idx : Nat)               -- repeated occurrence: index of the first one
  | dict (d : Fields)
deriving Repr, Inhabited

structure Opts where
  keyMap : List (String × String) := []
  valueMap : List (String × List JVal) := []
  fileMeta : Fields := []
deriving Repr, Inhabited

/-- `Node._make_list_entry` / `TypedNode._make_list_entry`. -/
def makeEntry (typed : Bool) (n : T) : Payload :=
  let custom := n.did != n.data.hid
  let idf : Fields := if custom then [("data_id", didJ n.did)] else []
  if typed then
    let base : Fields := if n.data.isStr then [("str", .str n.name)] ++ idf else idf
    .dict (match n.kind with | some k => base ++ [("kind", .str k)] | none => base)
  else if n.data.isStr then
    (if custom then .dict ([("str", .str n.name)] ++ idf) else .str n.name)
  else .dict idf

/-- `_compress_entry`: shorten keys by `key_map`, replace values by their index in `value_map[key]`
(keyed by the *long* name). `none` = KeyError (a value that is not in its list). Assumes the maps
are valid (no short key equals another key of the entry). -/
def compress (o : Opts) (d : Fields) : Option Fields :=
  d.mapM fun (k, v) =>
    let short := (o.keyMap.lookup k).getD k
    match o.valueMap.lookup k with
    | none => some (short, v)
    | some vals =>
      let i := vals.findIdx (· == v)
      if i < vals.length then some (short, .num i) else none

/-- pre-order enumeration with 1-based index and the index of the parent's entry. -/
def enumerate : List T → (parentIdx : Nat) → (next : Nat) → List (Nat × Nat × T) × Nat
  | [], _, next => ([], next)
  | .node i ks :: rest, p, next =>
    let below := enumerate ks next (next + 1)
    let after := enumerate rest p below.2
    ((next, p, T.node i ks) :: below.1 ++ after.1, after.2)

/-- `to_list_iter`: `ser n d` is the mapper (`none` = returns None, the dict is used as is);
`isClone n` = `node.is_clone()`.  `none` = KeyError from a bad value map. -/
def toList (typed : Bool) (o : Opts) (ser : T → Fields → Option Fields) (isClone : T → Bool) (tops : List T) :
    Option (List (Nat × Payload)) :=
  let rows := (enumerate tops 0 1).1
  let step := fun (acc : Option (List (Nat × Payload) × List (DataId × Nat × Option String))) (r : Nat × Nat × T) =>
    match acc with
    | none => none
    | some (out, cmap) =>
      let (idx, pidx, n) := r
      let hit := cmap.lookup n.did
      match hit with
      | some (cidx, ckind) =>
        if n.kind == ckind then some (out ++ [(pidx, Payload.ref cidx)], cmap)
        else
          -- same data, other kind: full entry (the map keeps the first occurrence)
          (match makeEntry typed n with
           | .dict d => (compress o ((ser n d).getD d)).map fun d' => (out ++ [(pidx, Payload.dict d')], cmap)
           | e => some (out ++ [(pidx, e)], cmap))
      | none =>
        let cmap' := if isClone n then cmap ++ [(n.did, idx, n.kind)] else cmap
        (match makeEntry typed n with
         | .dict d => (compress o ((ser n d).getD d)).map fun d' => (out ++ [(pidx, Payload.dict d')], cmap')
         | e => some (out ++ [(pidx, e)], cmap'))
  (rows.foldl step (some ([], []))).map (·.1)

def payloadJ : Payload → JVal
  | .str s => .str s
  | .ref i => .num i
  | .dict d => .obj d

/-- the `meta` header written by `save`. -/
def header (o : Opts) : Fields :=
  let h : Fields := [("$generator", .str ("nutree/" ++ Generated.version)), ("$format_version", .str Generated.fileFormatVersion)]
  let h := if o.keyMap.isEmpty then h else h ++ [("$key_map", .obj (o.keyMap.map fun (k, v) => (k, JVal.str v)))]
  let h := if o.valueMap.isEmpty then h else h ++ [("$value_map", .obj (o.valueMap.map fun (k, v) => (k, JVal.arr v)))]
  updateFields h o.fileMeta

/-- distinct kinds in pre-order (`Counter` keys), the default `kind` value map of `TypedTree.save`. -/
def kindsOf (tops : List T) : List JVal :=
  ((flatL tops).filterMap T.kind).eraseDups.map JVal.str

/-- the document written by `save` (`none` = KeyError). -/
def saveJ (typed : Bool) (o : Opts) (ser : T → Fields → Option Fields) (tops : List T) : Option JVal :=
  let isClone := fun (n : T) => ((flatL tops).filter fun m => m.did == n.did).length > 1
  (toList typed o ser isClone tops).map fun rows =>
    .obj [("meta", .obj (header o)), ("nodes", .arr (rows.map fun (p, e) => JVal.arr [.num p, payloadJ e]))]

/-! ### load -/

def lookupF (d : Fields) (k : String) : Option JVal := d.lookup k

/-- `"nutree/" in str(generator)`. -/
def hasNutree (s : String) : Bool := (s.splitOn "nutree/").length > 1

/-- `Tree._uncompress_entry`. -/
def uncompress (inverseKeyMap : List (String × String)) (valueMap : List (String × List JVal)) (d : Fields) : Option Fields :=
  d.mapM fun (k, v) =>
    let long := (inverseKeyMap.lookup k).getD k
    match v, valueMap.lookup long with
    | .num i, some vals => if i < 0 then none else (vals[i.toNat]?).map fun x => (long, x)
    | _, _ => some (long, v)

/-- result of the deserialisation mapper. -/
inductive DRes where
  | atom (a : Atom)
  | notImplemented
  | error

/-- `_from_list` (plain and typed): `strAtom s` finds the data object for a plain string,
`deser parent d` is `call_mapper(mapper, parent, d)`. -/
def fromList (typed : Bool) (strAtom : String → Atom) (deser : Fields → DRes) (rows : List (Nat × Payload)) :
    Except Err Tree :=
  let step := fun (acc : Except Err (Tree × Nat × List (Nat × NodeId))) (r : Nat × Payload) =>
    match acc with
    | .error e => .error e
    | .ok (t, next, idxMap) =>
      let idx := idxMap.length        -- the entry being read has index = number of entries so far (root is 0)
      match idxMap.lookup r.1 with
      | none => .error .key
      | some parent =>
        match r.2 with
        | .str s =>
          (t.addData next parent (strAtom s) .none none (if typed then some "child" else none)).map fun t1 =>
            (t1, next + 1, idxMap ++ [(idx, next)])
        | .ref k =>
          match idxMap.lookup k with
          | none => .error .key
          | some first =>
            match findT first t.root with
            | none => .error .key
            | some fc =>
              let (t1, n1, e) := t.addNode next parent fc true (t.parentId first) .none none (some fc.did) (if typed then fc.kind else none)
              match e with
              | some e => .error e
              | none => .ok (t1, n1, idxMap ++ [(idx, next)])
        | .dict d =>
          let did := (lookupF d "data_id").bind jDid
          let kind := if typed then some (match lookupF d "kind" with | some (.str k) => k | _ => "child") else none
          match deser d with
          | .notImplemented => .error .notImplemented
          | .error => .error .callback
          | .atom a =>
            (t.addData next parent a .none did kind).map fun t1 => (t1, next + 1, idxMap ++ [(idx, next)])
  (rows.foldl step (.ok ({ typed := typed }, 1, [(0, 0)]))).map (·.1)

def payloadOfJ : JVal → Option Payload
  | .str s => some (.str s)
  | .num i => if i < 0 then none else some (.ref i.toNat)
  | .obj d => some (.dict d)
  | _ => none

/-- `Tree.load` on a JSON value: header check, `file_meta`, un-compression, `_from_list`. -/
def loadJ (typed : Bool) (strAtom : String → Atom) (deser : Fields → DRes) (doc : JVal) : Except Err (Tree × Fields) :=
  match doc with
  | .obj top =>
    match lookupF top "meta", lookupF top "nodes" with
    | some (.obj hdr), some (.arr nodes) =>
      match lookupF hdr "$generator" with
      | some g =>
        let gs := match g with | .str s => s | _ => ""
        if !hasNutree gs then .error .runtime
        else
          let km : List (String × String) := match lookupF hdr "$key_map" with
            | some (.obj l) => l.filterMap fun (k, v) => match v with | .str s => some (s, k) | _ => none
            | _ => []
          let vm : List (String × List JVal) := match lookupF hdr "$value_map" with
            | some (.obj l) => l.filterMap fun (k, v) => match v with | .arr a => some (k, a) | _ => none
            | _ => []
          let rows : Option (List (Nat × Payload)) := nodes.mapM fun e =>
            match e with
            | .arr [.num p, x] =>
              if p < 0 then none else
              (payloadOfJ x).bind fun pl =>
                match pl with
                | .dict d => (uncompress km vm d).map fun d' => (p.toNat, Payload.dict d')
                | other => some (p.toNat, other)
            | _ => none
          match rows with
          | none => .error .other
          | some rows => (fromList typed strAtom deser rows).map fun t => (t, hdr)
      | none => .error .runtime
    | _, _ => .error .runtime
  | _ => .error .runtime

/-! ### the nested list-of-dicts form -/

mutual
/-- `Node.to_dict(mapper=)`. -/
def toDict (ser : T → Fields → Option Fields) : T → JVal
  | .node i ks =>
    let n := T.node i ks
    let base : Fields := [("data", .str i.data.name)] ++ (if i.did != i.data.hid then [("data_id", didJ i.did)] else [])
    let d := (ser n base).getD base
    .obj (if ks.isEmpty then d else setField d "children" (.arr (toDictL ser ks)))
def toDictL (ser : T → Fields → Option Fields) : List T → List JVal
  | [] => []
  | t :: ts => toDict ser t :: toDictL ser ts
end

/-- `from_dict`, with fuel for the nesting depth: `some deser` = a mapper is given. -/
def fromDictL (strAtom : String → Atom) (deser : Option (Fields → DRes)) :
    Nat → List JVal → Tree → NodeId → NodeId → Except Err (Tree × NodeId)
  | 0, _, t, _, next => .ok (t, next)
  | _, [], t, _, next => .ok (t, next)
  | f + 1, item :: rest, t, parent, next =>
    match item with
    | .obj d =>
      let dataR : DRes := match deser with
        | some m => m d
        | none => match lookupF d "data" with
          | some (.str s) => .atom (strAtom s)
          | _ => .error
      match dataR with
      | .notImplemented => .error .notImplemented
      | .error => .error .key
      | .atom a =>
        match t.addData next parent a .none ((lookupF d "data_id").bind jDid) none with
        | .error e => .error e
        | .ok t1 =>
          let kids := match lookupF d "children" with | some (.arr l) => l | _ => []
          match fromDictL strAtom deser f kids t1 next (next + 1) with
          | .error e => .error e
          | .ok (t2, n2) => fromDictL strAtom deser (f + 1) rest t2 parent n2
    | _ => .error .type

end Ser
end Nutree
