-- The library is built module by module (see `globs` in lakefile.toml); this root file is not
-- used as an aggregate because helper-lemma files of different properties are independent.
import Nutree.Model.Basic
