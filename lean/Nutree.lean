import Nutree.Model.Basic
import Nutree.Model.Iter
import Nutree.Spec.Iter
import Nutree.Generated.Tables
import Nutree.Properties.C06
