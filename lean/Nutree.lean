import Nutree.Model.Basic
import Nutree.Model.Iter
import Nutree.Spec.Iter
import Nutree.Generated.Tables
import Nutree.Properties.C06
import Nutree.Model.Rel
import Nutree.Spec.Rel
import Nutree.Properties.C10
